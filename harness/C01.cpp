// C01 — cell surfaces stay closed, consistently oriented 2-manifolds under remeshing (engine E1, hook H5/H6).
#define PROP_C01
#include "refine_explore.hpp"

namespace l3 {
struct Scenario { const char* name; double growth; double tension; double bulk; int iters; };
static std::string g_err; static std::string g_final_key; static long g_checks = 0; static int g_iter = 0; static bool g_active = false;
static std::map<unsigned, bool> g_positive_before_refine;
static long double signed_volume_about_mean(const cell& c) { sc::Geom g = sc::geom_of(c); return g.vol; }
// Node motion between passes is produced by the (possibly unstable) dynamics here and may itself turn a tiny cell inside out; the
// remesher is only held to what it controls: topology, bookkeeping, orientation consistency always; the sign of the enclosed volume
// must not be changed BY the refinement phase.
static void check_population(solver* s, const char* phase) {
    for (const cell_ptr& c : s->cell_lst_) { if (c->node_lst_.empty()) continue; sc::OracleOpts o; o.check_cached_geometry = false; o.check_volume = false;
        std::string e = sc::oracle_mesh(*c, o); g_checks++;
        if (e.empty() && !strcmp(phase, "refine")) g_positive_before_refine[c->get_id()] = signed_volume_about_mean(*c) > 0;
        if (e.empty() && !strcmp(phase, "contact") && g_positive_before_refine.count(c->get_id()) && g_positive_before_refine[c->get_id()]) { sc::OracleOpts o2; o2.check_bookkeeping = false; o2.flat_is_error = false; e = sc::oracle_mesh(*c, o2); if (!e.empty()) e = "refinement-phase-" + e; }
        if (!e.empty() && g_err.empty()) g_err = std::string("in situ, iteration ") + std::to_string(g_iter) + " phase " + phase + " cell " + std::to_string(c->get_id()) + ": " + e; }
}
static std::string run(const sc::Mesh& seed, const Scenario& sc_, const std::string& scratch, long& ops_seen, long& final_nodes) {
    auto type = sc::make_cell_type(0, 3); type->avg_growth_rate_ = sc_.growth; type->bulk_modulus_ = sc_.bulk; type->min_vol_ = 1e-6; for (auto& f : type->face_types_) f.surface_tension_ = sc_.tension;
    type->angle_regularization_factor_ = 0.01; type->area_elasticity_modulus_ = 0.1; for (auto& f : type->face_types_) f.bending_modulus_ = 0.001;
    cell_ptr c = sc::make_cell(seed, 0, type, true);
    global_simulation_parameters p = sc::make_sim_params(scratch, rx::L_MIN); p.time_step_ = 0.01; p.damping_coefficient_ = 5; p.sampling_period_ = 1e9; p.simulation_duration_ = 1e9;
    g_err.clear(); g_iter = 0; g_active = true; g_positive_before_refine.clear();
    rx::g_pass = rx::InPass(); rx::g_pass.active = false;
    try {
        solver s(p, {c}, 1, true, false);
        for (g_iter = 0; g_iter < sc_.iters && g_err.empty(); g_iter++) { s.run_iteration(); check_population(&s, "after_iteration"); }
        g_final_key.clear(); for (auto& cc : s.cell_lst_) { if (!cc->node_lst_.empty()) { cc->rebase(); final_nodes = cc->get_nb_of_nodes(); g_final_key += sc::canon_cell(*cc); } }
        check_population(&s, "after_final_rebase");
        for (auto& cc : s.cell_lst_) cc->clear_data();
    } catch (std::exception& e) { /* failure reported by exception: allowed, the history ends */ }
    g_active = false; c->clear_data();
    return g_err;
}
}
namespace simucell3d_verif { void solver_phase(void* s, const char* phase) { if (l3::g_active && (!strcmp(phase, "refine") || !strcmp(phase, "contact") || !strcmp(phase, "remove"))) l3::check_population(static_cast<solver*>(s), phase); } }

static std::string large_cell() {
    sc::Mesh m = sc::icosphere(6); if (m.nv() < 32768) return "INTERNAL the large seed is not large enough";
    auto type = sc::make_cell_type(0, 3); cell_ptr c; try { c = sc::make_cell(m, 0, type, true); } catch (std::exception& e) { return std::string("(construction): initialisation-rejected-a-closed-mesh: ") + e.what(); }
    sc::OracleOpts oo; std::string e = sc::oracle_mesh(*c, oo); if (!e.empty()) { c->clear_data(); return "(after construction): " + e; }
    double lo = 1e300, hi = 0; for (const edge& ed : c->get_edge_set()) { double d = (c->node_lst_[ed.n1()].pos_ - c->node_lst_[ed.n2()].pos_).norm(); lo = std::min(lo, d); hi = std::max(hi, d); }
    // stretch the cap z > 0.99 in the plane by up to 45 %: its edges leave the band [0.5 lo, 1.3 hi] upwards
    for (node& n : c->node_lst_) if (n.is_used_ && n.pos_.dz() > 0.99) { const double w = std::min(1.0, (n.pos_.dz() - 0.99) / 0.005); n.pos_ = vec3(n.pos_.dx() * (1 + 0.45 * w), n.pos_.dy() * (1 + 0.45 * w), n.pos_.dz()); }   // smooth: 45 % at the pole, fading out at the rim of the cap
    c->update_all_face_normals_and_areas(); local_mesh_refiner lmr(0.5 * lo, 1.3 * hi, false); const size_t before = c->get_nb_of_nodes();
    try { lmr.refine_mesh(c); } catch (std::exception& ex) { std::string w = ex.what(); c->clear_data(); if (w.rfind("The refinement of the mesh", 0) == 0) return "INTERNAL the pass on the large cell gave up (its own iteration bound): scenario not usable"; return "(refine_mesh on the stretched cap): operation-aborted-with-the-surface-torn-open: " + w.substr(0, 150); }
    if (c->get_nb_of_nodes() == before) { c->clear_data(); return "INTERNAL the pass on the large cell changed nothing"; }
    oo.check_cached_geometry = false; e = sc::oracle_mesh(*c, oo); if (!e.empty()) { c->clear_data(); return "(after refine_mesh): " + e; }
    try { c->rebase(); } catch (std::exception& ex) { c->clear_data(); return std::string("(rebase): rebase-threw-on-a-valid-mesh: ") + ex.what(); }
    e = sc::oracle_mesh(*c, oo); c->clear_data(); if (!e.empty()) return "(after rebase): " + e; return "";
}

static void explore(Result& R) {
    const bool th = R.args.thorough();
    auto sd = rx::seeds(th); long unit = 0;   // work units (seed x level) are dealt round-robin to the parallel shards
    // L1: depth 3 on the two smallest seeds, 2 on the rest (quick); 4 / 3 (thorough)
    for (size_t i = 0; i < sd.size(); i++) { int depth = (i < 2) ? (th ? 4 : 3) : (th ? 3 : 2); if (sd[i].name == "icosahedron" && !th) depth = 2;
        if (!R.args.mine(unit++)) continue;
        long s0 = R["states"]; rx::explore_l1(R, sd[i], depth); R.tables["L1_states_per_seed"][sd[i].name + "@depth" + std::to_string(depth)] = R["states"] - s0; if (!R.internal_error.empty()) return; }
    R["L1_states"] = R["states"]; R["L1_transitions"] = R["transitions"];
    // L2
    for (size_t i = 0; i < sd.size(); i++) { int depth = th ? 4 : 3; if (i >= 2 && !th) depth = 2; if (th && sd[i].name == "icosahedron") depth = 3;   /* 12-vertex seed: depth 4 does not complete inside the deadline */
        if (!R.args.mine(unit++)) continue;
        long s0 = R["states"]; rx::explore_l2(R, sd[i], depth); R.tables["L2_states_per_seed"][sd[i].name + "@depth" + std::to_string(depth)] = R["states"] - s0; if (!R.internal_error.empty()) return; }
    R["L2_states"] = R["states"] - R["L1_states"]; R["L2_transitions"] = R["transitions"] - R["L1_transitions"];
    // L3
    std::string scratch = scratch_base() + "/C01-" + std::to_string(getpid());
    std::vector<l3::Scenario> scs = {{"grow", 3.0, 0.05, 5.0, th ? 300 : 60}, {"shrink", -0.6, 0.3, 2.0, th ? 300 : 60}, {"steady_high_tension", 0.0, 1.0, 1.0, th ? 200 : 40}};
    for (auto& s : sd) for (auto& sc_ : scs) { if (!R.args.mine(unit++)) continue; if (R.out_of_time(0.95)) { R.cap("deadline in L3"); break; }
        long ops = 0, fn = 0; std::string e = l3::run(s.mesh, sc_, scratch, ops, fn); R["L3_runs"]++; R["L3_oracle_checks"] = l3::g_checks; R["transitions"] += sc_.iters; R["states"] += sc_.iters;
        R.tables["L3_final_node_count"][s.name + "/" + sc_.name] = fn; R.mix(s.name + "/" + sc_.name + "/" + std::to_string(fn) + "/" + l3::g_final_key);
        if (!e.empty()) R.violation("L3|" + clause_of(e.substr(e.find(": ", e.find(" cell ")) == std::string::npos ? 0 : e.find(": ", e.find(" cell ")) + 2)), "seed " + s.name + " scenario " + sc_.name + ": " + e, "level=L3\nseed=" + s.name + "\nscenario=" + sc_.name + "\n"); }
    // L4: one large cell (40962 nodes, 81920 faces, 122880 edges: beyond what 16-bit / 15-bit counters and 32-bit products of node ids can hold): built, checked, a patch stretched so that a
    // real pass splits some edges, checked, compacted, checked
    if (R.args.mine(unit++)) { progress("level=L4\n"); std::string e = large_cell(); R["L4_large_cell_runs"] = 1; R["states"] += 3; R["transitions"] += 3; if (e.rfind("INTERNAL", 0) == 0) R.internal_error = e; else if (!e.empty()) R.violation("L4|" + clause_of(e.substr(e.find("): ") == std::string::npos ? 0 : e.find("): ") + 3)), "icosphere of 40962 nodes: " + e, "level=L4\n"); }
    std::string cmd = "rm -rf '" + scratch + "'"; if (system(cmd.c_str())) {}
    R["traces_validated_against_impl"] = R["transitions"]; R["evaluations"] = R["transitions"]; R["distinct_nontrivial"] = R["states"];
    R.strings["rule"] = "states = distinct canonical cell states (exact serialisation of node slots, face slots, free queues, edge set, cached geometry, phase) reached by breadth-first search over operation histories replayed on the real cell; transitions = operations executed on the real code with the independent topological oracle run after each; L2 adds whole refine_mesh passes with the oracle also run after every operation inside the pass (hook H5); L3 adds solver iterations";
    R.assumptions = {"seeds: octahedron, bipyramid, tetrahedron, cube, dented cube, icosahedron and renumberings, longest edge normalised to 1.4, band [0.5,1.5]",
                     "operation histories respect the phase structure of refine_mesh (swaps first, then splits/merges) and of the solver loop (refresh of normals, then node displacement, between passes)",
                     "node displacements between passes are orientation preserving (anisotropic scaling, shear, single-vertex radial pull/push)",
                     "an operation or pass that reports failure by exception ends the history (allowed by C11) and is counted, not flagged",
                     "bounded depth: see L1_states_per_seed / L2_states_per_seed for the depth completed per seed"};
}
static int replay(const Replay& rp, Result& R) {
    if (rp.get("level") == "L4") { std::string a = large_cell(); printf("%s\n", a.c_str()); if (!a.empty()) { R.violation("L4", a, ""); return 1; } return 0; }
    if (rp.get("level") == "L3") { auto sd = rx::seeds(true); std::vector<l3::Scenario> scs = {{"grow", 3.0, 0.05, 5.0, 300}, {"shrink", -0.6, 0.3, 2.0, 300}, {"steady_high_tension", 0.0, 1.0, 1.0, 200}};
        for (auto& s : sd) if (s.name == rp.get("seed")) for (auto& sc_ : scs) if (rp.get("scenario") == sc_.name) { long a, b; std::string e = l3::run(s.mesh, sc_, "build/run/C01-replay", a, b); printf("%s\n", e.c_str()); if (!e.empty()) { R.violation("L3", e, ""); return 1; } }
        return 0; }
    return rx::replay_any(rp, R);
}
int main(int argc, char** argv) { return run_main(argc, argv, "C01", explore, replay); }
