// C13 — initial surface reconstruction: faithful closed mesh or clean failure (engine E2 + fork isolation, hook H2).
// Polyhedra (triangulated / polygonal, mixed windings, non-convex, far from the origin) x l_min/size x triangulation on/off x seeds
// through the real simulation_initializer (retry loop included), one forked child per case.
#include "sc3d.hpp"
#include "simulation_initializer.hpp"
#include "initial_triangulation.hpp"
#include "poisson_sampling.hpp"
#include <filesystem>
using namespace vf;

struct Poly { std::vector<double> pos; std::vector<std::vector<unsigned>> faces; std::string name; bool triangulated; bool valid = true; /* false: not a closed 2-manifold (open, pinched): only 'nothing invalid is handed over' is judged */ };
static std::vector<Poly> g_polys; static size_t g_first_invalid = 0;
static Poly from_mesh(const sc::Mesh& m, const std::string& name) { Poly p; p.pos = m.pos; for (size_t f = 0; f < m.nf(); f++) p.faces.push_back({m.tri[3*f], m.tri[3*f+1], m.tri[3*f+2]}); p.name = name; p.triangulated = true; return p; }
static Poly moved(Poly p, double s, double tx, double ty, double tz, const std::string& suffix) { for (size_t i = 0; i < p.pos.size(); i += 3) { p.pos[i] = p.pos[i] * s + tx; p.pos[i+1] = p.pos[i+1] * s + ty; p.pos[i+2] = p.pos[i+2] * s + tz; } p.name += suffix; return p; }
static void setup() { if (!g_polys.empty()) return; using namespace sc;
    Poly cq; cq.name = "cube_6_quads"; cq.triangulated = false; cq.pos = {0,0,0, 1,0,0, 1,1,0, 0,1,0, 0,0,1, 1,0,1, 1,1,1, 0,1,1}; cq.faces = {{0,3,2,1}, {4,5,6,7}, {0,1,5,4}, {1,2,6,5}, {2,3,7,6}, {3,0,4,7}};
    Poly cqm = cq; cqm.name = "cube_6_quads_mixed_windings"; std::reverse(cqm.faces[1].begin(), cqm.faces[1].end()); std::reverse(cqm.faces[4].begin(), cqm.faces[4].end());
    Poly ct = from_mesh(cube12(), "cube_12_triangles"); Poly ctm = ct; ctm.name = "cube_12_triangles_mixed_windings"; for (int f : {1, 4, 5, 9}) std::swap(ctm.faces[f][1], ctm.faces[f][2]);
    Poly pp; pp.name = "pentagonal_prism"; pp.triangulated = false; for (int k = 0; k < 2; k++) for (int i = 0; i < 5; i++) { pp.pos.push_back(std::cos(2 * M_PI * i / 5)); pp.pos.push_back(std::sin(2 * M_PI * i / 5)); pp.pos.push_back(k * 1.5); }
    pp.faces = {{4, 3, 2, 1, 0}, {5, 6, 7, 8, 9}}; for (unsigned i = 0; i < 5; i++) pp.faces.push_back({i, (i + 1) % 5, 5 + (i + 1) % 5, 5 + i});
    Poly lp; lp.name = "L_shaped_prism"; lp.triangulated = false; double L[6][2] = {{0, 0}, {2, 0}, {2, 1}, {1, 1}, {1, 2}, {0, 2}}; for (int k = 0; k < 2; k++) for (int i = 0; i < 6; i++) { lp.pos.push_back(L[i][0]); lp.pos.push_back(L[i][1]); lp.pos.push_back(k * 1.0); }
    lp.faces = {{5, 4, 3, 2, 1, 0}, {6, 7, 8, 9, 10, 11}}; for (unsigned i = 0; i < 6; i++) lp.faces.push_back({i, (i + 1) % 6, 6 + (i + 1) % 6, 6 + i});
    g_polys = {cq, cqm, ct, ctm, from_mesh(tetrahedron(), "tetrahedron"), from_mesh(octahedron(), "octahedron"), pp, from_mesh(icosphere(2), "icosphere162"), from_mesh(scaled(icosphere(2), 2, 1, 0.5), "ellipsoid_2_1_0.5"), lp};
    // inputs that are NOT closed 2-manifolds: whatever the initialiser does with them, it must not hand an open or non-manifold cell to the solver
    { Poly open = ct; open.name = "cube_11_of_12_triangles(open)"; open.faces.pop_back(); open.valid = false;
      Mesh os = subdivide_sphere(subdivide_sphere(octahedron(), ""), ""); unsigned north = 0, south = 0; for (size_t i = 0; i < os.nv(); i++) { if (os.pos[3*i+2] > os.pos[3*north+2]) north = (unsigned)i; if (os.pos[3*i+2] < os.pos[3*south+2]) south = (unsigned)i; }
      Poly pin = from_mesh(os, "sphere_with_both_poles_merged_into_one_node(pinched)"); for (auto& f : pin.faces) for (unsigned& id : f) if (id == south) id = north; pin.valid = false;
      Poly inw = ct; inw.name = "cube_12_triangles_all_wound_inward"; for (auto& f : inw.faces) std::swap(f[1], f[2]);   // legal: 'in any winding'
      g_polys.push_back(inw); g_first_invalid = g_polys.size(); g_polys.push_back(open); g_polys.push_back(pin); }
    size_t n = g_first_invalid - 1; for (size_t i = 0; i < n; i++) if (i == 0 || i == 2 || i == 6 || i == 7 || i == 9) g_polys.push_back(moved(g_polys[i], 2.5, 1024, -1024, 512, "_x2.5_at_(1024,-1024,512)"));
    // micrometre polyhedra in metres (volumes of 1e-18: anything absolute in the orientation or integrity decisions shows here), one outward, one inward, one mixed
    g_polys.push_back(moved(g_polys[2], 1e-6, 0, 0, 0, "_one_micrometre_in_metres")); g_polys.push_back(moved(g_polys[g_first_invalid - 1], 1e-6, 0, 0, 0, "_one_micrometre_in_metres")); g_polys.push_back(moved(g_polys[1], 1e-6, 0, 0, 0, "_one_micrometre_in_metres"));
}
static double poly_size(const Poly& p) { double lo[3] = {1e300, 1e300, 1e300}, hi[3] = {-1e300, -1e300, -1e300}; for (size_t i = 0; i < p.pos.size(); i += 3) for (int k = 0; k < 3; k++) { lo[k] = std::min(lo[k], p.pos[i+k]); hi[k] = std::max(hi[k], p.pos[i+k]); } return std::max({hi[0] - lo[0], hi[1] - lo[1], hi[2] - lo[2]}); }
// fan triangulation about the face centre (what the code's own coarse step does) for the reference surface
static void reference_surface(const Poly& p, std::vector<std::array<vec3, 3>>& tris, double& vol, double box[6]) {
    std::vector<vec3> P; for (size_t i = 0; i < p.pos.size(); i += 3) P.emplace_back(p.pos[i], p.pos[i+1], p.pos[i+2]); vec3 c0(0, 0, 0); for (auto& v : P) c0 = c0 + v; c0 = c0 / (double)P.size();
    for (int k = 0; k < 3; k++) { box[k] = 1e300; box[3+k] = -1e300; } for (auto& v : P) { double a[3] = {v.dx(), v.dy(), v.dz()}; for (int k = 0; k < 3; k++) { box[k] = std::min(box[k], a[k]); box[3+k] = std::max(box[3+k], a[k]); } }
    vol = 0; for (auto& f : p.faces) { vec3 fc(0, 0, 0); for (unsigned id : f) fc = fc + P[id]; fc = fc / (double)f.size(); for (size_t i = 0; i < f.size(); i++) { vec3 a = P[f[i]], b = P[f[(i + 1) % f.size()]]; tris.push_back({a, b, fc}); } }
    // unsigned volume: orient each fan triangle away from the centroid only for convex input; in general use the divergence theorem with consistent orientation recovered per face by majority against neighbours is overkill: compute |sum| over input orientation when consistent, else via point-in-solid sampling.  All our shapes are star-shaped about c0 except the L prism, handled by decomposition.
    vol = 0; for (auto& t : tris) { vec3 a = t[0] - c0, b = t[1] - c0, c = t[2] - c0; vol += std::fabs(a.dot(b.cross(c))) / 6.0; }
}
static double exact_volume(const Poly& p, double star_volume) { if (p.name.rfind("L_shaped_prism", 0) == 0) { double s = p.name.size() > 14 ? 2.5 : 1.0; return 3.0 * s * s * s; } return star_volume; }

static std::string write_vtk(const Poly& p, const std::string& path) { std::ofstream f(path); f << "# vtk DataFile Version 4.2\nvtk output\nASCII\nDATASET UNSTRUCTURED_GRID\nPOINTS " << p.pos.size() / 3 << " float\n"; char b[64];
    for (size_t i = 0; i < p.pos.size(); i++) { snprintf(b, sizeof b, "%.17g", p.pos[i]); f << b << ((i + 1) % 9 == 0 ? "\n" : " "); } size_t n = 1; for (auto& fc : p.faces) n += 1 + fc.size();
    f << "\n\nCELLS 1 " << n + 1 << "\n" << n << " " << p.faces.size() << " "; for (auto& fc : p.faces) { f << fc.size() << " "; for (unsigned id : fc) f << id << " "; } f << "\n\nCELL_TYPES 1\n42\n\nCELL_DATA 1\nFIELD FieldData 1\ncell_type_id 1 1 int\n0\n"; return path; }

struct Case { int poly, lmin, tri, seed; };
static const double LM[4] = {0.25, 1.0 / 6, 0.1, 0.055};   // the last (fine) resolution only for the two smallest polyhedra: at that resolution ball pivoting leaves several holes to fill in one run
static std::string case_text(const Case& c) { return std::to_string(c.poly) + " " + std::to_string(c.lmin) + " " + std::to_string(c.tri) + " " + std::to_string(c.seed); }
static std::string case_json(const Case& c) { return "{\"polyhedron\":\"" + g_polys[c.poly].name + "\",\"l_min/size\":" + jnum(LM[c.lmin]) + ",\"initial_triangulation\":" + (c.tri ? "true" : "false") + ",\"seed\":" + std::to_string(c.seed) + "}"; }

// returns "ok:<relvolerr>:<maxdist/lmax>" | "rejected:<type>:<msg>" | "<clause>: detail"
static std::string run_case(const Case& cs, const std::string& dir) {
    setup(); const Poly& p = g_polys[cs.poly]; simucell3d_verif::g_base_seed = 3000 + cs.seed; simucell3d_verif::reset_rng_counters(); srand(1 + cs.seed);
    const double size = poly_size(p), l_min = LM[cs.lmin] * size, l_max = 3 * l_min; std::filesystem::create_directories(dir); std::string path = write_vtk(p, dir + "/in.vtk"); char buf[400];
    global_simulation_parameters sp = sc::make_sim_params(dir + "/out", l_min); sp.input_mesh_path_ = path; sp.perform_initial_triangulation_ = cs.tri != 0; std::vector<cell_type_param_ptr> types = {sc::make_cell_type(0, 3)};
    std::vector<cell_ptr> lst;
    try { simulation_initializer init(sp, types, false); lst = init.get_cell_lst(); }
    catch (intialization_exception& e) { return std::string("rejected:intialization_exception:") + e.what(); }
    catch (std::exception& e) { return std::string("rejected:") + typeid(e).name() + ":" + e.what(); }
    if (lst.size() != 1 || !lst[0]) return "initializer-returned-wrong-number-of-cells";
    cell& c = *lst[0]; std::string e = sc::oracle_mesh(c); if (!e.empty()) return "initializer-handed-over-a-cell-with-" + e;
    if (!p.valid) { c.clear_data(); return "ok:0:0"; }   // a valid cell built from an invalid description (e.g. the reconstruction closed the hole): nothing more is demanded
    std::vector<std::array<vec3, 3>> tris; double star_vol, box[6]; reference_surface(p, tris, star_vol, box); const double Vin = exact_volume(p, star_vol);
    sc::Geom g = sc::geom_of(c); const double relv = std::fabs((double)g.vol - Vin) / Vin;
    double maxd = 0; for (const node& n : c.node_lst_) if (n.is_used_) { long double best = 1e300; for (auto& t : tris) best = std::min(best, sc::dist2_point_triangle(n.pos_, t[0], t[1], t[2])); maxd = std::max(maxd, (double)sqrtl(best)); }
    if (maxd > l_max) { snprintf(buf, sizeof buf, "node-farther-than-l_max-from-the-input-surface: %.6g (l_max %.6g)", maxd, l_max); return buf; }
    for (int k = 0; k < 3; k++) if (g.box[k] < box[k] - l_max || g.box[3+k] > box[3+k] + l_max || g.box[k] > box[k] + l_max || g.box[3+k] < box[3+k] - l_max) { snprintf(buf, sizeof buf, "bounding-box-farther-than-l_max-from-the-inputs: axis %d [%.6g,%.6g] vs [%.6g,%.6g]", k, g.box[k], g.box[3+k], box[k], box[3+k]); return buf; }
    if (!cs.tri && relv > 1e-9) { snprintf(buf, sizeof buf, "cell-differs-from-the-already-triangulated-input: relative volume error %.6g", relv); return buf; }
    c.clear_data(); snprintf(buf, sizeof buf, "ok:%.6g:%.6g", relv / (l_max / size), maxd / l_max); return buf;
}
// the sample points drawn on the surface are pairwise at least l_min apart
static std::string run_poisson(int poly, int lmin, int seed, long* npts) {
    setup(); const Poly& p = g_polys[poly]; simucell3d_verif::g_base_seed = 4000 + seed; simucell3d_verif::reset_rng_counters(); const double l_min = LM[lmin] * poly_size(p); char buf[300];
    mesh m; m.node_pos_lst = p.pos; m.face_point_ids = p.faces; initial_triangulation::coarse_triangulation(m); cell_ptr c;
    try { c = initial_triangulation::convert_mesh_to_cell(m); } catch (std::exception& e) { return "skip"; }
    std::vector<oriented_point> pts; try { pts = poisson_sampling::compute_poisson_point_cloud(l_min, c); } catch (std::exception& e) { c->clear_data(); return "skip"; }
    *npts += (long)pts.size(); double mind = 1e300; for (size_t i = 0; i < pts.size(); i++) for (size_t j = i + 1; j < pts.size(); j++) mind = std::min(mind, (pts[i].position_ - pts[j].position_).norm());
    c->clear_data(); if (pts.size() < 4) return "sampling-returned-fewer-than-4-points";
    if (mind < l_min * (1 - 1e-9)) { snprintf(buf, sizeof buf, "sample-points-closer-than-l_min: %.9g < %.9g (%zu points)", mind, l_min, pts.size()); return buf; } return "ok"; }

static void explore(Result& R) {
    const bool th = R.args.thorough(); setup(); const int K = th ? 32 : 4; long cases = 0, ok = 0, rej = 0, unit = 0, npts = 0, poisson_nonempty = 0; double worst_v = 0, worst_d = 0;
    std::string dir = scratch_base() + "/C13-" + std::to_string(getpid());
    for (int p = 0; p < (int)g_polys.size(); p++) for (int l = 0; l < 4; l++) for (int t = 0; t < 2; t++) for (int k = 0; k < (t ? (l == 3 ? 3 * K : (g_polys[p].name == "cube_12_triangles_all_wound_inward" ? (th ? 3 * K : 6 * K) : K)) : 1); k++) {   /* the inward-wound cube is where the reconstruction most often has several holes to fill: more seeds there */
        if (!g_polys[p].valid && l != 1) continue;
        if (l == 3 && !(g_polys[p].name == "tetrahedron" || g_polys[p].name == "octahedron")) continue; if (l == 3 && !t) continue;
        if (!R.args.mine(unit++)) continue; if (R.out_of_time(0.85)) { R.cap("deadline"); goto poisson; }
        Case c{p, l, t, k}; cases++; progress("mode=init\ncase=" + case_text(c) + "\n");
        ForkOut fo = run_forked([&](char* buf, size_t cap) { std::string r = run_case(c, dir); snprintf(buf, cap, "%s", r.c_str()); }, 300);
        std::string r = fo.data, err; R.mix(case_text(c) + "=>" + r);
        if (fo.status == -1000) err = "initialisation-does-not-return: no answer within 300 s";
        else if (fo.status != 0) err = "initialisation-crashes: child ended with status " + std::to_string(fo.status);
        else if (r.rfind("ok:", 0) == 0) { ok++; double v, d; sscanf(r.c_str(), "ok:%lf:%lf", &v, &d); worst_v = std::max(worst_v, v); worst_d = std::max(worst_d, d); R.tables["cells_returned_per_polyhedron"][g_polys[p].name]++;
            if (v > 1.0) err = "enclosed-volume-not-within-resolution-tolerance: relative error / (l_max/size) = " + jnum(v); }
        else if (r.rfind("rejected:", 0) == 0) { rej++; R.tables["rejections"][r.substr(9, 70)]++;
            if (r.rfind("rejected:intialization_exception", 0) != 0) { /* another std::exception: allowed by the statement ("or another std::exception")? the statement says initialisation exception */ R.tables["rejections_by_other_exception_types"][r.substr(9, 60)]++; }
            if (!t && g_polys[p].triangulated && g_polys[p].valid) err = "already-triangulated-closed-input-rejected-with-triangulation-disabled: " + r; }
        else err = r;
        if (!err.empty()) R.violation(clause_of(err) + "|" + (t ? "triangulation" : "no_triangulation"), case_json(c) + ": " + err, "mode=init\ncase=" + case_text(c) + "\n");
        if (cases % 12 == 1) R.sample(case_json(c), 8); }
poisson:
    for (int p = 0; p < (int)g_polys.size(); p++) for (int l = 0; l < 2; l++) for (int k = 0; k < (th ? 6 : 1); k++) { if (!g_polys[p].valid) continue; if (!R.args.mine(unit++)) continue; if (R.out_of_time(0.95)) { R.cap("deadline (poisson block)"); break; }
        ForkOut fo = run_forked([&](char* buf, size_t cap) { long n = 0; std::string r = run_poisson(p, l, k, &n); snprintf(buf, cap, "%ld|%s", n, r.c_str()); }, 300); cases++;
        std::string err; if (fo.status != 0) err = "sampling-crashes-or-hangs: status " + std::to_string(fo.status); else { npts += atol(fo.data.c_str()); if (atol(fo.data.c_str()) > 1) poisson_nonempty++; std::string r = fo.data.substr(fo.data.find('|') + 1); if (r != "ok" && r != "skip") err = r; }
        if (!err.empty()) R.violation(clause_of(err), g_polys[p].name + ", l_min/size " + jnum(LM[l]) + ", seed " + std::to_string(k) + ": " + err, "mode=poisson\npoly=" + std::to_string(p) + "\nlmin=" + std::to_string(l) + "\nseed=" + std::to_string(k) + "\n"); }
    std::error_code ec; std::filesystem::remove_all(dir, ec);
    R["evaluations"] = cases; R["states"] = cases; R["transitions"] = cases; R["distinct_nontrivial"] = ok + poisson_nonempty; R["traces_validated_against_impl"] = cases; R["cells_returned"] = ok; R["clean_rejections"] = rej; R["poisson_points_checked_pairwise"] = npts;
    R.reals["worst_relative_volume_error_over_(l_max/size)"] = worst_v; R.reals["worst_node_distance_over_l_max"] = worst_d;
    if (R.args.nshards == 1 && !ok) R.internal_error = "no cell was ever returned (vacuous)";
    R.strings["rule"] = "distinct_nontrivial = cases (distinct tuples by construction) that returned a cell which was then judged + sampling runs that produced at least two points; a case = (closed polyhedron, l_min/size, initial triangulation on/off, seed of the guarded RNG seam), run through the real simulation_initializer in a forked child; a returned cell must pass the independent mesh oracle, enclose the input volume within (l_max/size) relative, keep its box and every node within l_max of the input surface; otherwise the outcome must be an exception; the Poisson cloud of the public sampler is checked pairwise";
    R.assumptions = {"volume tolerance: relative error <= 1.0 * l_max/size (worst observed value is reported)", "reference volume by fan decomposition about the centroid (all shapes star-shaped) except the L prism (exact 3 s^3)", "sampling outcomes: the enumerated seeds only"};
}
static int replay(const Replay& rp, Result& R) { setup(); std::string r; if (rp.get("mode") == "poisson") { long n = 0; r = run_poisson((int)rp.geti("poly"), (int)rp.geti("lmin"), (int)rp.geti("seed"), &n); } else { Case c; std::istringstream i(rp.get("case")); i >> c.poly >> c.lmin >> c.tri >> c.seed; printf("%s\n", case_json(c).c_str()); r = run_case(c, "build/run/C13-replay"); }
    printf("%s\n", r.c_str()); if (r.rfind("ok", 0) != 0 && r.rfind("rejected", 0) != 0 && r != "skip") { R.violation(clause_of(r), r, ""); return 1; } return 0; }
int main(int argc, char** argv) { return run_main(argc, argv, "C13", explore, replay); }
