// C17 — malformed inputs are rejected with an exception, never a crash (engine E3: exhaustive fault enumeration over small valid files).
// Every case is one process of the REAL main.cpp binary (ASan+UBSan build) with CPU / RSS / wall limits in a private directory.
#include "common.hpp"
#include <sys/resource.h>
#include <fcntl.h>
#include <filesystem>
using namespace vf;
namespace fs = std::filesystem;

static std::string g_main, g_root;

// ------------------------------------------------------------------------------------------------ seed files
// the same two-octahedra file with the triangle list of the first cell edited CONSISTENTLY (all counts follow): drop = index of a triangle to leave out (-1: none), dup = index of one to list twice, flip = index of one to wind the other way
static std::string seed_vtk_tri_edited(int drop, int dup, int flip) {
    std::ostringstream o; o << "# vtk DataFile Version 4.2\nvtk output\nASCII\nDATASET UNSTRUCTURED_GRID\nPOINTS 12 float\n";
    double P[6][3] = {{1, 0, 0}, {-1, 0, 0}, {0, 1, 0}, {0, -1, 0}, {0, 0, 1}, {0, 0, -1}}; for (int c = 0; c < 2; c++) { for (int i = 0; i < 6; i++) o << P[i][0] + 3.5 * c << " " << P[i][1] << " " << P[i][2] << " "; o << "\n"; }
    int T[8][3] = {{0, 2, 4}, {2, 1, 4}, {1, 3, 4}, {3, 0, 4}, {2, 0, 5}, {1, 2, 5}, {3, 1, 5}, {0, 3, 5}};
    std::vector<std::array<int, 3>> first; for (int i = 0; i < 8; i++) { if (i == drop) continue; std::array<int, 3> t = {T[i][0], T[i][1], T[i][2]}; if (i == flip) std::swap(t[1], t[2]); first.push_back(t); if (i == dup) first.push_back(t); }
    const int n1 = 1 + 4 * (int)first.size();
    o << "\nCELLS 2 " << (n1 + 1) + 34 << "\n" << n1 << " " << first.size() << " "; for (auto& t : first) o << "3 " << t[0] << " " << t[1] << " " << t[2] << " "; o << "\n33 8 "; for (auto& t : T) o << "3 " << t[0] + 6 << " " << t[1] + 6 << " " << t[2] + 6 << " "; o << "\n";
    o << "\nCELL_TYPES 2\n42\n42\n\nCELL_DATA 2\nFIELD FieldData 2\ncell_id 1 2 int\n0 1\ncell_type_id 1 2 int\n0 0\n"; return o.str(); }
static std::string seed_vtk_tri() {   // two octahedra, triangulated; with the cell data arrays the reader needs
    std::ostringstream o; o << "# vtk DataFile Version 4.2\nvtk output\nASCII\nDATASET UNSTRUCTURED_GRID\nPOINTS 12 float\n";
    double P[6][3] = {{1, 0, 0}, {-1, 0, 0}, {0, 1, 0}, {0, -1, 0}, {0, 0, 1}, {0, 0, -1}}; for (int c = 0; c < 2; c++) { for (int i = 0; i < 6; i++) o << P[i][0] + 3.5 * c << " " << P[i][1] << " " << P[i][2] << " "; o << "\n"; }
    int T[8][3] = {{0, 2, 4}, {2, 1, 4}, {1, 3, 4}, {3, 0, 4}, {2, 0, 5}, {1, 2, 5}, {3, 1, 5}, {0, 3, 5}};
    o << "\nCELLS 2 68\n"; for (int c = 0; c < 2; c++) { o << "33 8 "; for (auto& t : T) o << "3 " << t[0] + 6 * c << " " << t[1] + 6 * c << " " << t[2] + 6 * c << " "; o << "\n"; }
    o << "\nCELL_TYPES 2\n42\n42\n\nCELL_DATA 2\nFIELD FieldData 2\ncell_id 1 2 int\n0 1\ncell_type_id 1 2 int\n0 0\n"; return o.str(); }
static std::string seed_vtk_poly() {  // one cube given as six quadrilaterals (needs the initial triangulation)
    return "# vtk DataFile Version 4.2\nvtk output\nASCII\nDATASET UNSTRUCTURED_GRID\nPOINTS 8 float\n0 0 0 1 0 0 1 1 0 0 1 0 0 0 1 1 0 1 1 1 1 0 1 1\n\nCELLS 1 32\n31 6 4 0 3 2 1 4 4 5 6 7 4 0 1 5 4 4 1 2 6 5 4 2 3 7 6 4 3 0 4 7\n\nCELL_TYPES 1\n42\n\nCELL_DATA 1\nFIELD FieldData 1\ncell_type_id 1 1 int\n0\n"; }
static std::string seed_xml(bool triangulate, double lmin) {
    std::ostringstream o; o << "<?xml version=\"1.0\"?>\n<numerical_parameters>\n<input_mesh_file_path>in.vtk</input_mesh_file_path>\n<output_mesh_folder_path>./out</output_mesh_folder_path>\n<perform_initial_triangulation>" << (triangulate ? 1 : 0) << "</perform_initial_triangulation>\n<enable_edge_swap_operation>1</enable_edge_swap_operation>\n"
      << "<damping_coefficient>1.5</damping_coefficient>\n<simulation_duration>2e-3</simulation_duration>\n<sampling_period>1e-3</sampling_period>\n<time_step>1e-3</time_step>\n<min_edge_length>" << lmin << "</min_edge_length>\n<contact_cutoff_adhesion>0.05</contact_cutoff_adhesion>\n<contact_cutoff_repulsion>0.05</contact_cutoff_repulsion>\n</numerical_parameters>\n"
      << "<cell_types>\n<cell_type>\n<cell_type_name>epithelial</cell_type_name>\n<global_cell_id>0</global_cell_id>\n<cell_mass_density>1.0e3</cell_mass_density>\n<cell_bulk_modulus>2.5</cell_bulk_modulus>\n<max_inner_pressure>INF</max_inner_pressure>\n<avg_growth_rate>0.1</avg_growth_rate>\n<std_growth_rate>0</std_growth_rate>\n"
      << "<target_isoperimetric_ratio>150</target_isoperimetric_ratio>\n<area_elasticity_modulus>0.1</area_elasticity_modulus>\n<angle_regularization_factor>0</angle_regularization_factor>\n<avg_division_volume>INF</avg_division_volume>\n<std_division_volume>0</std_division_volume>\n<surface_coupling_max_curvature>2.5</surface_coupling_max_curvature>\n<min_vol>1e-3</min_vol>\n<face_types>\n";
    for (int f = 0; f < 3; f++) o << "<face_type>\n<global_face_id>" << f << "</global_face_id>\n<face_type_name>ft" << f << "</face_type_name>\n<adherence_strength>1.5</adherence_strength>\n<repulsion_strength>2.5</repulsion_strength>\n<surface_tension>0.5</surface_tension>\n<bending_modulus>0</bending_modulus>\n</face_type>\n";
    o << "</face_types>\n</cell_type>\n</cell_types>\n"; return o.str(); }

// ------------------------------------------------------------------------------------------------ fault generation
struct Case { int seedset; std::string file; std::string kind; std::string where; std::string vtk, xml; bool valid_geometry_edit = false; bool must_be_diagnosed = false; /* a well-formed file whose face list does not describe a closed surface, offered with the initial triangulation switched off */ };
static const char* MENU[] = {"-1", "0", "99", "4294967295", "99999999999999999999", "abc", "1e999", "nan", "3.5"};

struct TokSpan { size_t b, e; };
static std::vector<TokSpan> tokens_of(const std::string& s, size_t from) { std::vector<TokSpan> t; size_t i = from; while (i < s.size()) { while (i < s.size() && isspace((unsigned char)s[i])) i++; if (i >= s.size()) break; size_t j = i; while (j < s.size() && !isspace((unsigned char)s[j])) j++; t.push_back({i, j}); i = j; } return t; }
static std::string section_at(const std::string& s, size_t pos) { const char* names[] = {"POINTS", "CELLS", "CELL_TYPES", "CELL_DATA", "FIELD", "cell_type_id", "cell_id"}; std::string best = "header"; size_t bp = 0; for (const char* n : names) { size_t p = s.rfind(n, pos); if (p != std::string::npos && p >= bp) { // CELLS is a prefix of nothing else; CELL_TYPES / CELL_DATA start with CELL_
            if (std::string(n) == "CELLS" && s.compare(p, 6, "CELLS ") != 0) continue; bp = p; best = n; } } return best; }

static void gen_vtk_faults(int seedset, const std::string& vtk, const std::string& xml, bool thorough, std::vector<Case>& out, size_t token_stride = 1) {
    size_t body = 0; for (int k = 0; k < 4; k++) body = vtk.find('\n', body) + 1;    // the four header lines are free text except the version line
    auto toks = tokens_of(vtk, 0);
    long npoints = 0; { size_t kw = vtk.find("POINTS"); if (kw != std::string::npos) npoints = atol(vtk.c_str() + kw + 6); }
    for (size_t ti = 0; ti < toks.size(); ti += token_stride) { const TokSpan& t = toks[ti]; std::string sec = t.b < body ? "header" : section_at(vtk, t.b); std::string w = sec + "#" + std::to_string(ti);
        // replacing a point COORDINATE by another finite number yields a well-formed file describing a (possibly huge, spiky) valid geometry
        bool coord_token = false; if (sec == "POINTS") { size_t kw = vtk.rfind("POINTS", t.b); auto after = tokens_of(vtk.substr(kw, t.b - kw), 0); coord_token = after.size() >= 3; }
        auto mut = [&](const std::string& kind, const std::string& repl, bool del) { Case c; c.seedset = seedset; c.file = "vtk"; c.kind = kind; c.where = sec; c.xml = xml; c.vtk = vtk.substr(0, t.b) + (del ? "" : repl) + vtk.substr(t.e);
            if (coord_token && !del) { char* e; double v = strtod(repl.c_str(), &e); c.valid_geometry_edit = (*e == 0 && std::isfinite(v)); } out.push_back(c); };
        mut("token-deleted", "", true); mut("token-duplicated", vtk.substr(t.b, t.e - t.b) + " " + vtk.substr(t.b, t.e - t.b), false);
        for (const char* m : MENU) mut(std::string("token-replaced-by-") + m, m, false);
        // index-like tokens (everything but point coordinates): the first values that do not exist / that wrap the integer types the readers use
        if (!coord_token) { for (const std::string& m : {std::to_string(npoints), std::to_string(npoints + 1), std::string("32768"), std::string("65535"), std::string("715827883"), std::string("1431655765"), std::string("1431655766"), std::string("2147483647"), std::string("2147483648")}) mut("token-replaced-by-" + m + (m == std::to_string(npoints) ? "(=number of points)" : m == std::to_string(npoints + 1) ? "(=number of points+1)" : ""), m, false); } }
    // data lines reduced to a single token followed by blanks (a count that announces nothing)
    { size_t ls0 = 0; int li = 0; while (ls0 < vtk.size()) { size_t le = vtk.find('\n', ls0); if (le == std::string::npos) le = vtk.size(); std::string line = vtk.substr(ls0, le - ls0); bool data = ls0 >= body && !line.empty() && (isdigit((unsigned char)line[0]) || line[0] == '-');
        if (data) for (const char* tok : {"0", "1", "-1", "3"}) { Case c; c.seedset = seedset; c.file = "vtk"; c.where = section_at(vtk, ls0) + "#line" + std::to_string(li); c.xml = xml; c.kind = std::string("line-reduced-to-") + tok; c.vtk = vtk.substr(0, ls0) + tok + "      " + vtk.substr(le); out.push_back(c); }
        ls0 = le + 1; li++; } }
    // keyword lines: remove / duplicate / move to the end
    size_t ls = 0; while (ls < vtk.size()) { size_t le = vtk.find('\n', ls); if (le == std::string::npos) le = vtk.size(); std::string line = vtk.substr(ls, le - ls); bool kw = !line.empty() && isalpha((unsigned char)line[0]) && ls >= body;
        if (kw) { std::string name = line.substr(0, line.find(' ')); Case c; c.seedset = seedset; c.file = "vtk"; c.where = name; c.xml = xml;
            c.kind = "keyword-line-removed"; c.vtk = vtk.substr(0, ls) + vtk.substr(std::min(le + 1, vtk.size())); out.push_back(c);
            c.kind = "keyword-line-duplicated"; c.vtk = vtk.substr(0, le + 1) + line + "\n" + vtk.substr(std::min(le + 1, vtk.size())); out.push_back(c);
            c.kind = "keyword-line-moved-to-end"; c.vtk = vtk.substr(0, ls) + vtk.substr(std::min(le + 1, vtk.size())) + line + "\n"; out.push_back(c); }
        ls = le + 1; }
    for (size_t off = 0; off < vtk.size(); off += (thorough ? 1 : 8)) { Case c; c.seedset = seedset; c.file = "vtk"; c.kind = "truncated"; c.where = section_at(vtk, off); c.xml = xml; c.vtk = vtk.substr(0, off); out.push_back(c); }
}

// degenerate geometry: every point gets the same value in one, two or all three coordinates (a flat cell, a line, a point), near and far from the origin.  The files are well formed;
// the surfaces enclose nothing.  Judged like every other case: no crash, no sanitizer report, no hang before start-up is over.
static void gen_flat(int seedset, const std::string& vtk, const std::string& xml, std::vector<Case>& out) {
    size_t kw = vtk.find("POINTS"); if (kw == std::string::npos) return; auto head = tokens_of(vtk, kw); if (head.size() < 3) return; const long np = atol(vtk.substr(head[1].b, head[1].e - head[1].b).c_str()); if ((long)head.size() < 3 + 3 * np) return;
    for (int mask = 1; mask < 8; mask++) for (const char* c : {"0", "5", "-5", "1048576"}) { std::string v = vtk; for (long i = 3 * np - 1; i >= 0; i--) if (mask >> (i % 3) & 1) { const TokSpan& t = head[3 + i]; v = v.substr(0, t.b) + c + v.substr(t.e); }
        Case cs; cs.seedset = seedset; cs.file = "vtk"; cs.kind = std::string("all-points-share-the-value-") + c; cs.where = std::string("coordinates-") + (mask & 1 ? "x" : "") + (mask & 2 ? "y" : "") + (mask & 4 ? "z" : ""); cs.xml = xml; cs.vtk = v; out.push_back(cs); } }

// needles: one thin closed tetrahedron lying along the space diagonal of a box of L x L x L/2 length units (little area, so few sample points, but a bounding box that needs
// (4L)^2 * 2L voxels of size l_min = 0.25): L = 512 needs exactly 2^32 voxels and L = 1024 needs 2^35 while every dimension stays far below 2^32 (the total must be formed without
// wrapping and refused); L = 20 is an ordinary small grid.  The initial triangulation is on.
static void gen_needles(int seedset, const std::string& xml, std::vector<Case>& out) {
    for (double L : {20.0, 512.0, 1024.0}) for (int sgn : {1, -1}) { std::ostringstream o; o << "# vtk DataFile Version 4.2\nvtk output\nASCII\nDATASET UNSTRUCTURED_GRID\nPOINTS 4 float\n"; const double e = 0.3, s = sgn;
        o << "0 0 0 " << s * L << " " << s * L << " " << s * L / 2 << " " << s * (L + e) << " " << s * L << " " << s * L / 2 << " " << s * L << " " << s * (L + e) << " " << s * L / 2 << "\n\nCELLS 1 18\n17 4 3 0 2 1 3 0 1 3 3 0 3 2 3 1 2 3\n\nCELL_TYPES 1\n42\n\nCELL_DATA 1\nFIELD FieldData 1\ncell_type_id 1 1 int\n0\n";
        char nm[80]; snprintf(nm, sizeof nm, "needle-along-the-diagonal-of-a-box-of-%g-units%s", L, sgn < 0 ? "-at-negative-coordinates" : ""); Case cs; cs.seedset = seedset; cs.file = "vtk"; cs.kind = nm; cs.where = "whole-file"; cs.xml = xml; cs.vtk = o.str(); out.push_back(cs); } }
// very long tokens: a token replaced by a run of N digits / letters / dots.  Parsers that recurse or allocate per character of a token show it here.
static void gen_long_tokens(int seedset, const std::string& vtk, const std::string& xml, bool thorough, std::vector<Case>& out) {
    auto toks = tokens_of(vtk, 0); std::vector<long> NS = {1500, 20000}; if (thorough) NS.push_back(300000);
    for (size_t ti = 0; ti < toks.size(); ti += (thorough ? 1 : 3)) for (long n : NS) for (char ch : {'1', 'a', '.'}) { if (!thorough && ch == '.' && n != 20000) continue; const TokSpan& t = toks[ti]; Case c; c.seedset = seedset; c.file = "vtk"; c.kind = "token-replaced-by-" + std::to_string(n) + "-times-" + std::string(1, ch); c.where = section_at(vtk, t.b) + "#" + std::to_string(ti); c.xml = xml; c.vtk = vtk.substr(0, t.b) + std::string((size_t)n, ch) + vtk.substr(t.e); out.push_back(c); }
    // the same in the text of every leaf element of the parameter file
    size_t p = 0; int leaf_i = 0; while ((p = xml.find('<', p)) != std::string::npos) { if (xml[p + 1] == '/' || xml[p + 1] == '?') { p++; continue; } size_t q = xml.find('>', p); std::string tag = xml.substr(p + 1, q - p - 1); std::string close = "</" + tag + ">"; size_t r = xml.find(close, q); if (r == std::string::npos) { p = q; continue; }
        std::string inner = xml.substr(q + 1, r - q - 1); if (inner.find('<') == std::string::npos && tag != "output_mesh_folder_path") { if (thorough || leaf_i % 3 == 0) for (long n : NS) for (char ch : {'1', 'a'}) { Case c; c.seedset = seedset; c.file = "xml"; c.kind = "element-text-replaced-by-" + std::to_string(n) + "-times-" + std::string(1, ch); c.where = tag; c.vtk = vtk; c.xml = xml.substr(0, q + 1) + std::string((size_t)n, ch) + xml.substr(r); out.push_back(c); } leaf_i++; }
        p = q; } }
static void gen_xml_faults(int seedset, const std::string& vtk, const std::string& xml, bool thorough, std::vector<Case>& out) {
    // elements with text content: <tag>text</tag>
    size_t p = 0; while ((p = xml.find('<', p)) != std::string::npos) { if (xml[p + 1] == '/' || xml[p + 1] == '?') { p++; continue; } size_t q = xml.find('>', p); std::string tag = xml.substr(p + 1, q - p - 1); std::string close = "</" + tag + ">"; size_t r = xml.find(close, q);
        if (r == std::string::npos) { p = q; continue; } std::string inner = xml.substr(q + 1, r - q - 1); bool leaf = inner.find('<') == std::string::npos; size_t end = r + close.size();
        auto add = [&](const std::string& kind, const std::string& text) { Case c; c.seedset = seedset; c.file = "xml"; c.kind = kind; c.where = tag; c.vtk = vtk; c.xml = text; out.push_back(c); };
        add("element-removed", xml.substr(0, p) + xml.substr(end)); add("element-duplicated", xml.substr(0, end) + xml.substr(p, end - p) + xml.substr(end)); add("element-renamed", xml.substr(0, p) + "<" + tag + "_x>" + inner + "</" + tag + "_x>" + xml.substr(end));
        if (leaf) { add("element-text-empty", xml.substr(0, q + 1) + xml.substr(r)); add("element-self-closed", xml.substr(0, p) + "<" + tag + "/>" + xml.substr(end));
            // children that are not text: a comment before the value (legal XML, the value is still there), a comment only, the value wrapped in a nested element, a CDATA section, a processing instruction
            add("element-text-preceded-by-a-comment", xml.substr(0, q + 1) + "<!-- unit -->" + inner + xml.substr(r)); add("element-holds-a-comment-only", xml.substr(0, q + 1) + "<!-- unit -->" + xml.substr(r)); add("element-text-wrapped-in-a-nested-element", xml.substr(0, q + 1) + "<value>" + inner + "</value>" + xml.substr(r));
            add("element-text-in-a-cdata-section", xml.substr(0, q + 1) + "<![CDATA[" + inner + "]]>" + xml.substr(r)); add("element-holds-a-processing-instruction", xml.substr(0, q + 1) + "<?x y?>" + xml.substr(r)); for (const char* m : MENU) add(std::string("element-text-replaced-by-") + m, xml.substr(0, q + 1) + m + xml.substr(r)); }
        p = q; }
    for (size_t off = 0; off < xml.size(); off += (thorough ? 1 : 8)) { Case c; c.seedset = seedset; c.file = "xml"; c.kind = "truncated"; c.where = "offset"; c.vtk = vtk; c.xml = xml.substr(0, off); out.push_back(c); }
}

// the output folder is removed recursively by the solver: never let a mutated value point outside the private directory
static bool output_path_is_safe(const std::string& xml) { size_t a = xml.find("<output_mesh_folder_path>"); if (a == std::string::npos) return true; a += 25; size_t b = xml.find('<', a); std::string v = xml.substr(a, b == std::string::npos ? std::string::npos : b - a); while (!v.empty() && isspace((unsigned char)v[0])) v.erase(0, 1); return v.empty() || (v[0] != '/' && v[0] != '~' && v.find("..") == std::string::npos); }

// ------------------------------------------------------------------------------------------------ running one case
struct Running { pid_t pid; size_t idx; std::chrono::steady_clock::time_point t0; std::string dir; };
struct Outcome { std::string cls; std::string detail; };

static Outcome classify(int status, bool timed_out, const std::string& dir) {
    std::string err; { std::ifstream f(dir + "/stderr.txt"); std::stringstream ss; ss << f.rdbuf(); err = ss.str(); }
    auto first_repo_frame = [&]() { size_t p = err.find(" in "); while (p != std::string::npos) { size_t le = err.find('\n', p); std::string line = err.substr(p + 4, le - p - 4); if (line.find("/repo") != std::string::npos || line.find("/src/") != std::string::npos || line.find("/include/") != std::string::npos || line.find("main.cpp") != std::string::npos) { return line.substr(0, line.find(' ')); } p = err.find(" in ", le); } return std::string("?"); };
    // The property is about START-UP (loading the two files, building the cells, constructing the solver).  The solver announces the output
    // folder at the end of its constructor: whatever happens after that line is the run of a simulation whose (syntactically valid, possibly
    // absurd) parameters were accepted, e.g. a duration of 1e20 or a node at 4e9 that needs 2^32 splits; it is counted, not judged here.
    { std::ifstream f(dir + "/stdout.txt"); std::stringstream ss; ss << f.rdbuf(); if (ss.str().find("The output folder is") != std::string::npos && !(WIFEXITED(status) && WEXITSTATUS(status) == 0 && !timed_out)) {
        if (WIFSIGNALED(status) && WTERMSIG(status) == SIGKILL) return {"startup-completed", "run stopped by the harness"};
        std::string later = timed_out ? "timeout" : WIFSIGNALED(status) ? "signal " + std::to_string(WTERMSIG(status)) : "exit " + std::to_string(WEXITSTATUS(status)); return {"startup-completed", "then during the run: " + later}; } }
    if (timed_out) return {"hang", "no exit within the wall-clock limit"};
    if (err.find("ERROR: AddressSanitizer") != std::string::npos) { size_t p = err.find("ERROR: AddressSanitizer: "); std::string kind = err.substr(p + 25, err.find_first_of(" \n", p + 25) - p - 25); return {"sanitizer:" + kind, first_repo_frame()}; }
    if (err.find("runtime error:") != std::string::npos) { size_t p = err.find("runtime error:"); return {"sanitizer:undefined-behaviour", err.substr(p + 15, std::min<size_t>(80, err.find('\n', p) - p - 15))}; }
    if (err.find("hard rss limit exhausted") != std::string::npos || err.find("allocation-size-too-big") != std::string::npos || err.find("out of memory") != std::string::npos) return {"memory-blow-up", "resident set limit"};
    if (WIFSIGNALED(status)) { int s = WTERMSIG(status); if (s == SIGXCPU) return {"hang", "CPU limit"}; return {"crash:signal-" + std::to_string(s), (err.find("terminate called") != std::string::npos ? "std::terminate: " : "") + err.substr(0, 120)}; }
    if (WIFEXITED(status)) { int c = WEXITSTATUS(status); if (c == 0) return {"completed", ""}; if (c == 1) { if (err.empty()) return {"exit-1-without-message", ""}; return {"reported", err.substr(0, err.find('\n'))}; } return {"crash:exit-" + std::to_string(c), err.substr(0, 120)}; }
    return {"crash:unknown", ""};
}

static bool startup_done(const std::string& dir) { std::ifstream f(dir + "/stdout.txt"); std::string l; while (std::getline(f, l)) if (l.find("The output folder is") != std::string::npos) return true; return false; }
static void launch(const Case& c, const std::string& dir) {
    fs::create_directories(dir); { std::ofstream f(dir + "/in.vtk"); f << c.vtk; } { std::ofstream f(dir + "/p.xml"); f << c.xml; }
}
static pid_t spawn(const std::string& dir) {
    pid_t pid = fork(); if (pid != 0) return pid;
    if (chdir(dir.c_str()) != 0) _exit(120);
    int fo = open("stdout.txt", O_WRONLY | O_CREAT | O_TRUNC, 0644), fe = open("stderr.txt", O_WRONLY | O_CREAT | O_TRUNC, 0644); dup2(fo, 1); dup2(fe, 2);
    struct rlimit cpu = {20, 25}; setrlimit(RLIMIT_CPU, &cpu); struct rlimit core = {0, 0}; setrlimit(RLIMIT_CORE, &core); struct rlimit fsz = {64u << 20, 64u << 20}; setrlimit(RLIMIT_FSIZE, &fsz);
    setenv("ASAN_OPTIONS", "detect_leaks=0:hard_rss_limit_mb=1024:allocator_may_return_null=0:abort_on_error=0:exitcode=97:max_allocation_size_mb=2048", 1); setenv("UBSAN_OPTIONS", "print_stacktrace=1", 1);
    execl(g_main.c_str(), g_main.c_str(), "p.xml", (char*)nullptr); _exit(121);
}

static std::string case_key(const Case& c, const Outcome& o) { std::string cls = o.cls; std::string d = o.detail.substr(0, o.detail.find('(')); if (cls.rfind("sanitizer", 0) == 0) cls += "@" + d; return cls + "|" + c.file + "|" + c.kind + "|" + c.where; }
static std::string esc_nl(const std::string& s) { std::string o; for (char ch : s) { if (ch == '\n') o += "\\n"; else if (ch == '\\') o += "\\\\"; else o += ch; } return o; }
static std::string unesc_nl(const std::string& s) { std::string o; for (size_t i = 0; i < s.size(); i++) { if (s[i] == '\\' && i + 1 < s.size()) { o += s[i + 1] == 'n' ? '\n' : s[i + 1]; i++; } else o += s[i]; } return o; }

static Outcome run_one(const Case& c, const std::string& dir, double wall_limit = 40) { launch(c, dir); pid_t pid = spawn(dir); auto t0 = std::chrono::steady_clock::now(); int st = 0; bool to = false; while (true) { pid_t w = waitpid(pid, &st, WNOHANG); if (w == pid) break; if (startup_done(dir)) { kill(pid, SIGKILL); waitpid(pid, &st, 0); break; } if (std::chrono::duration<double>(std::chrono::steady_clock::now() - t0).count() > wall_limit) { kill(pid, SIGKILL); waitpid(pid, &st, 0); to = true; break; } usleep(2000); } return classify(st, to, dir); }

static void explore(Result& R) {
    const bool th = R.args.thorough(); g_root = scratch_base() + "/C17-" + std::to_string(getpid()); fs::create_directories(g_root);
    if (g_main.empty() || access(g_main.c_str(), X_OK) != 0) { R.internal_error = "real main binary not available: " + g_main; return; }
    std::vector<Case> cases; std::string v1 = seed_vtk_tri(), x1 = seed_xml(false, 0.45), v2 = seed_vtk_poly(), x2 = seed_xml(true, 0.25);
    // 0 deviations: the seeds themselves must complete
    cases.push_back({0, "none", "valid-seed", "-", v1, x1}); cases.push_back({1, "none", "valid-seed", "-", v2, x2});
    gen_vtk_faults(0, v1, x1, th, cases); gen_xml_faults(0, v1, x1, th, cases); gen_vtk_faults(1, v2, x2, th, cases, th ? 1 : 3 /* the polygonal seed runs the (slow under ASan) initial triangulation: every third token in the quick tier */);
    if (th) gen_xml_faults(1, v2, x2, false, cases);
    gen_flat(0, v1, x1, cases); gen_flat(1, v2, x2, cases); gen_needles(1, x2, cases); gen_long_tokens(0, v1, x1, th, cases); if (th) gen_long_tokens(1, v2, x2, false, cases);
    if (th) { // 2 deviations over a reduced alphabet: every pair of (count token of a section header, menu value)
        std::vector<Case> singles; gen_vtk_faults(0, v1, x1, false, singles); std::vector<Case> cnt; for (auto& c : singles) if (c.kind.rfind("token-replaced-by-", 0) == 0 && (c.kind == "token-replaced-by-0" || c.kind == "token-replaced-by-4294967295" || c.kind == "token-replaced-by--1")) cnt.push_back(c);
        for (size_t i = 0; i < cnt.size(); i += 7) { std::vector<Case> second; gen_vtk_faults(0, cnt[i].vtk, x1, false, second); for (size_t j = 0; j < second.size(); j += 13) { Case c = second[j]; c.kind = cnt[i].kind + "+" + c.kind; cases.push_back(c); } } }
    // well-formed files whose face list does not describe a closed surface (every triangle of the first cell left out / listed twice, counts adjusted), with the initial triangulation off: must be diagnosed
    for (int i = 0; i < 8; i++) { Case c; c.seedset = 0; c.file = "vtk"; c.where = "triangle#" + std::to_string(i); c.xml = x1; c.must_be_diagnosed = true; c.kind = "triangle-left-out-consistently"; c.vtk = seed_vtk_tri_edited(i, -1, -1); cases.push_back(c); c.kind = "triangle-listed-twice-consistently"; c.vtk = seed_vtk_tri_edited(-1, i, -1); cases.push_back(c); }
    { Case c; c.seedset = 0; c.file = "vtk"; c.kind = "valid-seed"; c.where = "regenerated"; c.xml = x1; c.vtk = seed_vtk_tri_edited(-1, -1, -1); cases.push_back(c); }   // the generator itself reproduces a valid file
    // arbitrary (short) byte strings: EVERY string up to length 3 (thorough; quick: 2) over an alphabet of the bytes and words the two parsers react to, offered as the whole mesh file
    // and as the whole parameter file (the other file being a valid seed)
    { const std::vector<std::string> AV = {"POINTS", "CELLS", "CELL_TYPES", "3", "-1", "float", " ", "\n", "x", std::string(1, '\0')}, AX = {"<", ">", "/", "numerical_parameters", "a", "=", "\"", " ", "&", "1"};
      const int L = th ? 3 : 2; long nbs = 0;
      for (int which = 0; which < 2; which++) { const auto& A = which ? AX : AV; std::vector<int> idx;
          std::function<void()> rec = [&]() { std::string body; for (int i : idx) body += A[i]; Case c; c.seedset = 0; c.file = which ? "xml" : "vtk"; c.kind = "whole-file-is-a-short-string"; c.where = "len" + std::to_string(idx.size()); c.vtk = which ? v1 : body; c.xml = which ? body : x1; cases.push_back(c); nbs++;
              if ((int)idx.size() < L) for (int i = 0; i < (int)A.size(); i++) { idx.push_back(i); rec(); idx.pop_back(); } };
          rec(); }
      R["whole_file_short_strings"] = nbs; }
    long unsafe = 0; std::map<std::string, long>& outcomes = R.tables["outcomes"]; std::map<std::string, long>& msgs = R.tables["distinct_exception_messages"];
    const int PAR = 16; std::vector<Running> running; size_t next = 0; long done = 0;
    auto finish = [&](const Running& r, int status, bool to) { const Case& c = cases[r.idx]; Outcome o = classify(status, to, r.dir); outcomes[o.cls.substr(0, o.cls.find(':') == std::string::npos ? o.cls.size() : (o.cls.rfind("sanitizer", 0) == 0 ? o.cls.size() : o.cls.find(':')))]++; done++;
        if (o.cls == "reported") msgs[o.detail.substr(0, 70)]++;
        if (c.valid_geometry_edit && (o.cls == "hang" || o.cls == "memory-blow-up")) { o.cls = "startup-completed"; o.detail = "not judged: well-formed file whose geometry (a coordinate replaced by another finite number) makes the triangulation legitimately expensive"; }
        bool bad = !(o.cls == "completed" || o.cls == "reported" || o.cls == "startup-completed"); if (c.must_be_diagnosed && o.cls != "reported" && !bad) { bad = true; o.detail = "a face list that does not describe a closed surface was accepted without a diagnostic (" + o.cls + ")"; o.cls = "invalid-face-list-not-diagnosed"; } if (o.cls == "startup-completed") R.tables["after_startup"][o.detail]++; if (c.kind == "valid-seed" && o.cls != "completed" && o.cls != "startup-completed") { bad = true; o.detail = "a valid seed file did not complete: " + o.cls + " " + o.detail; }
        if (bad) R.violation(case_key(c, o), "file " + c.file + ", fault " + c.kind + " at " + c.where + " (seed set " + std::to_string(c.seedset) + "): outcome " + o.cls + " " + o.detail, "vtk=" + esc_nl(c.vtk) + "\nxml=" + esc_nl(c.xml) + "\n");
        if (done % 700 == 1) R.sample("{\"file\":\"" + c.file + "\",\"fault\":\"" + c.kind + "\",\"where\":\"" + c.where + "\",\"outcome\":\"" + o.cls + "\"}");
        std::error_code ec; fs::remove_all(r.dir, ec); };
    while (next < cases.size() || !running.empty()) {
        while (running.size() < (size_t)PAR && next < cases.size()) { if (R.out_of_time(0.9)) { R.cap("deadline: " + std::to_string(cases.size() - next) + " cases not run"); next = cases.size(); break; }
            if (!output_path_is_safe(cases[next].xml)) { unsafe++; next++; continue; } std::string dir = g_root + "/c" + std::to_string(next); launch(cases[next], dir); pid_t pid = spawn(dir); running.push_back({pid, next, std::chrono::steady_clock::now(), dir}); next++; }
        bool any = false; for (size_t i = 0; i < running.size();) { int st = 0; pid_t w = waitpid(running[i].pid, &st, WNOHANG); double el = std::chrono::duration<double>(std::chrono::steady_clock::now() - running[i].t0).count();
            if (w == running[i].pid) { finish(running[i], st, false); running.erase(running.begin() + i); any = true; }
            else if (startup_done(running[i].dir)) { kill(running[i].pid, SIGKILL); waitpid(running[i].pid, &st, 0); finish(running[i], st, false); running.erase(running.begin() + i); any = true; }   // start-up is over: the run itself is not judged, stop it
            else if (el > 40) { kill(running[i].pid, SIGKILL); waitpid(running[i].pid, &st, 0); finish(running[i], st, true); running.erase(running.begin() + i); any = true; } else i++; }
        if (!any) usleep(3000); }
    std::error_code ec; fs::remove_all(g_root, ec);
    R["evaluations"] = done; R["states"] = done; R["transitions"] = done; R["distinct_nontrivial"] = (long)msgs.size() + 2; R["traces_validated_against_impl"] = done; R["cases_generated"] = (long)cases.size(); R["unsafe_skipped"] = unsafe; R["distinct_validation_messages_reached"] = (long)msgs.size();
    R.strings["rule"] = "a case = one valid seed (two-octahedra VTK + XML; quad-cube VTK + XML with initial triangulation) with 0 or 1 deviation from the complete alphabet {every token (of the polygonal seed: every third token in the quick tier) deleted / duplicated / replaced by each of (index-like tokens also: the number of points, that number + 1, 32768, 65535, 715827883 and 1431655765/6 (where three times the value wraps 31 / 32 bits), 2147483647, 2147483648) -1, 0, 99, 4294967295, 99999999999999999999, abc, 1e999, nan, 3.5; every keyword line removed / duplicated / moved to the end; truncation at every 8th (thorough: every) byte; every XML element removed / duplicated / renamed / emptied / self-closed / text replaced by each menu value} (thorough: pairs over a reduced alphabet); each case runs the real main binary (ASan+UBSan) in its own directory; distinct_nontrivial = number of distinct diagnostics reached + the two valid seeds";
    R.assumptions = {"acceptable outcomes: exit 0, or exit 1 with the message of a std::exception printed by main, or start-up completed (the solver announced its output folder) whatever the accepted parameters then do to the run; anything else (signal, std::terminate, sanitizer report, > 40 s wall / 20 s CPU, > 1 GiB resident before start-up completes) is a violation", "a point coordinate replaced by another finite number gives a well-formed file with a valid (possibly huge) geometry: time/memory limits are not judged for those cases, crashes and sanitizer reports are", "mutated output-folder values are checked to stay inside the private directory before launch (unsafe_skipped counts the ones skipped)"};
}
static int replay(const Replay& rp, Result& R) { Case c; c.vtk = unesc_nl(rp.get("vtk")); c.xml = unesc_nl(rp.get("xml")); if (!output_path_is_safe(c.xml)) { printf("unsafe output path, not run\n"); return 0; } std::string dir = "build/run/C17-replay-" + std::to_string(getpid()); fs::create_directories(dir); dir = fs::absolute(dir).string(); Outcome o = run_one(c, dir); printf("outcome: %s %s\n", o.cls.c_str(), o.detail.c_str());
    { std::ifstream f(dir + "/stderr.txt"); std::string l; int n = 0; while (std::getline(f, l) && n++ < 25) printf("  | %s\n", l.c_str()); } std::error_code ec; fs::remove_all(dir, ec); if (!(o.cls == "completed" || o.cls == "reported" || o.cls == "startup-completed")) { R.violation(o.cls, o.detail, ""); return 1; } return 0; }
int main(int argc, char** argv) { for (int i = 1; i + 1 < argc; i++) if (std::string(argv[i]) == "--main") g_main = argv[i + 1]; if (g_main.empty() && getenv("VERIF_MAIN")) g_main = getenv("VERIF_MAIN"); return run_main(argc, argv, "C17", explore, replay); }
