#pragma once
// Shared helper for solver-level histories (C04, C08, C14, C19, C10): builds a population and a real `solver`, gives every
// execution a private scratch output folder, dispatches the H6 phase hook to the harness.
#include "sc3d.hpp"
#include "solver.hpp"
#include <filesystem>

namespace sw {
using namespace vf;

inline std::string scratch_root() { static std::string d; if (d.empty()) { d = scratch_base() + "/w" + std::to_string(getpid()); std::filesystem::create_directories(d); } return d; }
inline void cleanup_scratch() { std::error_code ec; std::filesystem::remove_all(scratch_root(), ec); }

// phase hook dispatch
inline std::function<void(solver*, const char*)>& phase_cb() { static std::function<void(solver*, const char*)> f; return f; }

struct CellSpec { sc::Mesh mesh; cell_type_param_ptr type; };

// ids the cells carry when they are handed to the solver constructor: 0 = their places (what simulation_initializer produces), 1 = reversed, 2 = ids of a later point of a run
// (70000 + 3 i) with unrelated position indices — a list that was reordered, filtered or taken from the population of an earlier run
inline int& incoming_ids() { static int v = 0; return v; }
struct World {
    std::vector<cell_ptr> initial;
    std::unique_ptr<solver> s;
    global_simulation_parameters p;
    World(const std::vector<CellSpec>& cells, const global_simulation_parameters& params, bool stats_in_string = true) : p(params) {
        srand(1); simucell3d_verif::reset_rng_counters();
        for (size_t i = 0; i < cells.size(); i++) { const unsigned id = incoming_ids() == 0 ? (unsigned)i : incoming_ids() == 1 ? (unsigned)(cells.size() - 1 - i) : 70000u + 3u * (unsigned)i; initial.push_back(sc::make_cell(cells[i].mesh, id, cells[i].type, true)); if (incoming_ids() == 2) initial.back()->set_local_id(9000 + (unsigned)i); else if (incoming_ids() == 1) initial.back()->set_local_id(id); }
        s = std::make_unique<solver>(p, initial, 1, stats_in_string, false);
    }
    std::vector<cell_ptr>& cells() { return s->cell_lst_; }
    ~World() { if (s) for (auto& c : s->cell_lst_) if (c) c->clear_data(); for (auto& c : initial) if (c) c->clear_data(); phase_cb() = nullptr; }
};

// uniform scaling of a cell about the mean of its live nodes (used to make a cell fall below its minimum volume / exceed its division volume)
inline void scale_cell(cell& c, double s) { double m[3] = {0, 0, 0}; size_t n = 0; for (const node& nd : c.node_lst_) if (nd.is_used_) { m[0] += nd.pos_.dx(); m[1] += nd.pos_.dy(); m[2] += nd.pos_.dz(); n++; } for (double& v : m) v /= n;
    for (node& nd : c.node_lst_) if (nd.is_used_) nd.pos_.reset(m[0] + s * (nd.pos_.dx() - m[0]), m[1] + s * (nd.pos_.dy() - m[1]), m[2] + s * (nd.pos_.dz() - m[2])); }

// canonical serialisation of the whole population + solver counters (state key of solver-level searches)
inline std::string canon_world(solver& s) {
    std::string k; sc::putv<uint32_t>(k, s.cell_lst_.size()); sc::putv<uint32_t>(k, s.iteration_); sc::putv<uint32_t>(k, s.file_number_); sc::putv<uint32_t>(k, s.max_cell_id_); sc::putv(k, s.time_integrator_ptr_->get_simulation_time());
    for (auto& c : s.cell_lst_) { sc::putv<uint32_t>(k, c->cell_id_); sc::putv<uint32_t>(k, c->local_id_); sc::putv<int16_t>(k, c->cell_type_ ? c->cell_type_->global_type_id_ : -1); sc::putv(k, c->volume_); sc::putv(k, c->target_volume_); sc::putv(k, c->pressure_); sc::putv(k, c->growth_rate_); sc::putv(k, c->division_volume_); k += sc::canon_cell(*c); }
    return k;
}
} // namespace sw

namespace simucell3d_verif { void solver_phase(void* s, const char* phase) { auto& f = sw::phase_cb(); if (f) f(static_cast<solver*>(s), phase); } }
