// C09 — cell division yields two valid daughters or leaves the mother untouched (engine E2 + fork isolation, hook H2).
// Shapes x forced division axes x minimum edge lengths x RNG seeds through the real cell_divider::divide_cell (each case in a forked
// child so that std::terminate from the noexcept wrapper is observed), and through cell_divider::run on populations.
#include "sc3d.hpp"
#include "cell_divider.hpp"
#include "initial_triangulation.hpp"
#include <typeinfo>
using namespace vf;

// an epithelial cell whose division axis is dictated by the harness (the axis is a virtual of the cell)
struct forced_axis_cell : public epithelial_cell {
    vec3 axis_; bool forced_ = false;
    forced_axis_cell(const std::vector<double>& p, const std::vector<unsigned>& t, unsigned id, cell_type_param_ptr ty) : epithelial_cell(p, t, id, ty) {}
    vec3 get_cell_division_axis() const noexcept override { return forced_ ? axis_ : get_cell_longest_axis(); }
};

static std::vector<sc::Mesh> g_shapes; static std::vector<std::string> g_shape_names;
static void setup() { using namespace sc; if (!g_shapes.empty()) return;
    auto add = [&](Mesh m, const std::string& n) { m.name = n; g_shapes.push_back(m); };
    add(icosphere(1), "icosphere42"); add(icosphere(2), "icosphere162");
    add(scaled(icosphere(2), 2, 1, 1), "ellipsoid_x"); add(scaled(icosphere(2), 1, 2, 1), "ellipsoid_y"); add(scaled(icosphere(2), 1, 1, 2), "ellipsoid_z");
    add(transformed(scaled(icosphere(2), 2, 1, 1), matmul(rot_x_51213(), rot_z_345()), {0, 0, 0}), "ellipsoid_diagonal");
    add(translated(scaled(icosphere(1), 1, 1, 1), 1024.5, -512.25, 2048), "icosphere42_far_from_origin");
    { Mesh m = icosphere(2); for (size_t i = 0; i < m.nv(); i++) { double x = m.pos[3*i]; double r = 0.45 + 0.55 * x * x; m.pos[3*i] *= 1.6; m.pos[3*i+1] *= r; m.pos[3*i+2] *= r; } add(m, "dumbbell"); }
    { Mesh m = icosphere(2); for (size_t i = 0; i < m.nv(); i++) if (m.pos[3*i+2] > 0.6) m.pos[3*i+2] = 1.2 - m.pos[3*i+2]; add(m, "dented_sphere"); }
    { Mesh m = subdivide_sphere(subdivide_sphere(octahedron(), ""), ""); add(m, "octasphere66_plane_through_vertices"); }
    add(subdivide_flat(subdivide_flat(cube12(), ""), ""), "cube_subdivided_194");
    add(translated(icosphere(1), 1048576.5, -524288.25, 2097152), "icosphere42_a_million_sizes_from_origin");   // the signs of volumes taken about the coordinate origin are rounding noise here
}
static const double AX[16][3] = {{1, 0, 0}, {-1, 0, 0}, {0, 1, 0}, {0, -1, 0}, {0, 0, 1}, {0, 0, -1}, {0.7071067811865476, 0.7071067811865476, 0}, {0.5773502691896258, 0.5773502691896258, 0.5773502691896258}, {0.2672612419124244, -0.5345224838248488, 0.8017837257372732}, {0, 0, 0}, {0.000764842059810797, 0.0006442175798680818, 0.9999995000000417}, {-0.0005048460204588443, 0.0008632092227806532, -0.9999995000000417}, {-9.364566872906404e-07, -3.507832276895614e-07, 0.9999999999995001}, {1.865123694225447e-07, -9.82452612624169e-07, -0.9999999999995001}, {0.9999995000000417, 0.000764842059810797, 0.0006442175798680818}, {-5.048461045997734e-07, -0.9999999999995, 8.632093666487298e-07}};   // last = the real longest axis
static const char* AXN[16] = {"+x", "-x", "+y", "-y", "+z", "-z", "(1,1,0)", "(1,1,1)", "generic", "longest_axis", "+z tilted by 0.001 rad", "-z tilted by 0.001 rad", "+z tilted by 1e-06 rad", "-z tilted by 1e-06 rad", "+x tilted by 0.001 rad", "-y tilted by 1e-06 rad"};   // index 9 = the real longest axis; 10..15 = almost axis-aligned
static const char* LMN[4] = {"band_low", "band_middle", "band_high", "too_large"};

struct Case { int shape, axis, lmin, seed; int hist = 0; /* 1: the mother went through a real edge collapse (free slots); 2: her nodes have moved since her caches were last refreshed, as in a running simulation; 3: wide-band refiner */ };
static std::string case_text(const Case& c) { return std::to_string(c.shape) + " " + std::to_string(c.axis) + " " + std::to_string(c.lmin) + " " + std::to_string(c.seed) + " " + std::to_string(c.hist); }
static std::string case_json(const Case& c) { return "{\"shape\":\"" + g_shapes[c.shape].name + "\",\"axis\":\"" + AXN[c.axis] + "\",\"l_min\":\"" + LMN[c.lmin] + "\",\"seed\":" + std::to_string(c.seed) + ",\"mother_history\":" + std::to_string(c.hist) + "}"; }

static std::vector<std::array<double, 9>> soup(const cell& c) { std::vector<std::array<double, 9>> s; for (const face& f : c.face_lst_) if (f.is_used_) { const vec3 &a = c.node_lst_[f.n1_id_].pos_, &b = c.node_lst_[f.n2_id_].pos_, &d = c.node_lst_[f.n3_id_].pos_;
        std::array<std::array<double, 3>, 3> v = {{{a.dx(), a.dy(), a.dz()}, {b.dx(), b.dy(), b.dz()}, {d.dx(), d.dy(), d.dz()}}}; int m = 0; for (int i = 1; i < 3; i++) if (v[i] < v[m]) m = i;   // rotate to a canonical start, keeps the winding
        std::array<double, 9> t; for (int i = 0; i < 3; i++) for (int k = 0; k < 3; k++) t[3*i+k] = v[(m+i)%3][k]; s.push_back(t); } std::sort(s.begin(), s.end()); return s; }

static void edge_range(const sc::Mesh& m, double& lo, double& hi) { lo = 1e300; hi = 0; for (size_t f = 0; f < m.nf(); f++) for (int k = 0; k < 3; k++) { unsigned a = m.tri[3*f+k], b = m.tri[3*f+(k+1)%3]; double d = 0; for (int j = 0; j < 3; j++) d += (m.pos[3*a+j] - m.pos[3*b+j]) * (m.pos[3*a+j] - m.pos[3*b+j]); lo = std::min(lo, std::sqrt(d)); hi = std::max(hi, std::sqrt(d)); } }
// minimum edge lengths: three values for which the mother mesh is inside the band [l_min, 3 l_min] (as it is in a running simulation, where
// it has been refined with the same l_min), and one far too large (mother out of band: only "nothing escapes / mother untouched" is judged)
static double lmin_for(const sc::Mesh& m, int idx, bool& in_band) { double lo, hi; edge_range(m, lo, hi); double a = hi / 3 * 1.02, b = lo * 0.98; in_band = idx < 3 && a <= b; if (idx == 3) { in_band = false; return 1.5 * hi; } if (a > b) return std::sqrt(lo * hi / 3); return idx == 0 ? a : idx == 1 ? std::sqrt(a * b) : b; }
static double mean_edge(const sc::Mesh& m) { double s = 0; long n = 0; for (size_t f = 0; f < m.nf(); f++) for (int k = 0; k < 3; k++) { unsigned a = m.tri[3*f+k], b = m.tri[3*f+(k+1)%3]; double d = 0; for (int j = 0; j < 3; j++) d += (m.pos[3*a+j] - m.pos[3*b+j]) * (m.pos[3*a+j] - m.pos[3*b+j]); s += std::sqrt(d); n++; } return s / n; }

// diagnostic only: replays the public steps of the division pipeline on the (unchanged) mother to learn which step gave up
static std::string diagnose(cell_ptr c, double l_min, const local_mesh_refiner& lmr) {
    try { c->rebase(); const vec3 centroid = c->compute_centroid(); const vec3 n = c->get_cell_division_axis(); const unsigned thr = c->get_node_lst().size();
        mesh m = cell_divider::add_intersection_points(c, centroid, n); cell_divider::divide_faces(m, thr); const unsigned fthr = m.face_point_ids.size();
        const unsigned nb = m.node_pos_lst.size() / 3 - thr; std::vector<unsigned> ids(nb); std::iota(ids.begin(), ids.end(), thr); m.face_point_ids.push_back(ids); initial_triangulation::coarse_triangulation(m);
        auto [tr, rot] = cell_divider::map_points_to_xy_plane(m, thr, n); cell_divider::triangulate_division_interface(l_min, m, thr, fthr, n); cell_divider::map_points_to_division_plane(m, thr, tr, rot);
        auto [d1, d2] = cell_divider::create_daughter_cells(c, m, thr, fthr, n, centroid); std::string r = "daughters created; "; try { lmr.refine_mesh(d1); lmr.refine_mesh(d2); r += "refinement ok"; } catch (std::exception& e) { r += std::string("refine_mesh: ") + e.what(); } d1->clear_data(); d2->clear_data(); return r; }
    catch (std::exception& e) { return e.what(); }
}
// runs one division in THIS process; returns "ok:<volume defect>" / "fail" (clean nullopt) / "<clause>: detail"
static std::string divide_once(const Case& cs) {
    setup(); simucell3d_verif::g_base_seed = 1000 + cs.seed; simucell3d_verif::reset_rng_counters(); srand(1);
    const sc::Mesh& m = g_shapes[cs.shape]; auto ty = sc::make_cell_type(0, 3); auto c = std::make_shared<forced_axis_cell>(m.pos, m.tri, 7u, ty); c->set_local_id(0); c->initialize_cell_properties();
    if (cs.axis != 9) { c->forced_ = true; c->axis_ = vec3(AX[cs.axis][0], AX[cs.axis][1], AX[cs.axis][2]); }
    bool in_band = false; const double l_min = lmin_for(m, cs.lmin, in_band); local_mesh_refiner lmr(cs.hist == 3 ? 1e-3 * l_min : l_min, cs.hist == 3 ? 50 * l_min : 3 * l_min, true);   /* history 3: a refiner whose band already contains every daughter edge (the daughters leave the division without a single split or collapse: free node slots of the mother's list, no free face slot) */
    if (cs.hist == 1) { local_mesh_refiner wide(1e-9, 1e9, true); for (const edge& e0 : c->get_edge_set()) { edge e = e0; bool can = false; try { can = wide.can_be_merged(e, c); } catch (...) {} if (!can) continue; edge_set es = c->get_edge_set(); try { wide.merge_edge(e, c, es); } catch (...) {} break; } c->update_all_face_normals_and_areas(); c->area_ = c->compute_area(); c->volume_ = c->compute_volume(); in_band = false; }
    if (cs.hist == 2) { vec3 o = c->compute_centroid(); for (node& nd : c->node_lst_) if (nd.is_used_) nd.pos_ = o + (nd.pos_ - o) * 1.04 + vec3(0.01, -0.02, 0.015) * (nd.pos_ - o).dx(); }   // grown and sheared a little since the last forces phase: face areas, normals and the cached total area are one step old
    c->target_volume_ = 1.25 * c->get_volume();
    const auto before = soup(*c); const double Vm = (double)sc::geom_of(*c).vol; const double target_m = c->target_volume_; const vec3 centroid = c->compute_centroid(); const vec3 n = c->get_cell_division_axis();
    double size = 0; for (const node& nd : c->node_lst_) size = std::max(size, (nd.pos_ - centroid).norm());
    char buf[400];
    auto res = cell_divider::divide_cell(c, l_min, lmr);
    if (!res.has_value()) { if (soup(*c) != before) return "failed-division-changed-the-mother-surface"; if (c->target_volume_ != target_m) return "failed-division-changed-the-mother-target-volume"; std::string e = sc::oracle_mesh(*c); if (!e.empty()) return "failed-division-left-the-mother-invalid-" + e; return "fail:" + diagnose(c, l_min, lmr).substr(0, 70); }
    auto [d1, d2] = res.value(); double vsum = 0;
    for (cell_ptr d : {d1, d2}) { if (!d) return "daughter-is-null";
        if (typeid(*d) != typeid(epithelial_cell) && typeid(*d) != typeid(forced_axis_cell)) return std::string("daughter-has-a-different-cell-class: ") + typeid(*d).name();
        if (d->get_cell_type() != ty) return "daughter-has-a-different-cell-type";
        sc::OracleOpts o; o.check_volume = in_band; std::string e = sc::oracle_mesh(*d, o); if (!e.empty()) return "daughter-" + e;
        if (d->target_volume_ != target_m / 2) { snprintf(buf, sizeof buf, "daughter-target-volume-is-not-half-the-mothers: %.17g vs %.17g / 2", d->target_volume_, target_m); return buf; }
        double lo = 1e300, hi = -1e300; for (const node& nd : d->node_lst_) if (nd.is_used_) { double s = (nd.pos_ - centroid).dot(n); lo = std::min(lo, s); hi = std::max(hi, s); }
        if (lo < -1e-9 * size && hi > 1e-9 * size) { snprintf(buf, sizeof buf, "daughter-straddles-the-division-plane: signed distances in [%.6g, %.6g] (cell size %.6g)", lo, hi, size); return buf; }
        vsum += (double)sc::geom_of(*d).vol; }
    { double lo1 = 1e300, hi1 = -1e300, lo2 = 1e300, hi2 = -1e300; for (const node& nd : d1->node_lst_) if (nd.is_used_) { double s = (nd.pos_ - centroid).dot(n); lo1 = std::min(lo1, s); hi1 = std::max(hi1, s); } for (const node& nd : d2->node_lst_) if (nd.is_used_) { double s = (nd.pos_ - centroid).dot(n); lo2 = std::min(lo2, s); hi2 = std::max(hi2, s); }
      bool d1neg = hi1 <= 1e-9 * size, d2neg = hi2 <= 1e-9 * size; if (d1neg == d2neg) return "both-daughters-on-the-same-side-of-the-plane"; }
    if (soup(*c) != before) return "successful-division-changed-the-mother-before-the-caller-replaced-it";
    double defect = std::fabs(vsum - Vm) / Vm; d1->clear_data(); d2->clear_data(); c->clear_data();
    snprintf(buf, sizeof buf, "ok:%.6g", in_band ? defect : -1.0); return buf;
}

// population through cell_divider::run: 3 cells, a subset is ready
static std::string run_population(int ready_mask, int seed, int* divided = nullptr) {
    setup(); simucell3d_verif::g_base_seed = 2000 + seed; simucell3d_verif::reset_rng_counters(); srand(1); char buf[300];
    std::vector<cell_ptr> L; const sc::Mesh& base = g_shapes[0]; auto ty = sc::make_cell_type(0, 3);
    for (int i = 0; i < 3; i++) { cell_ptr c = sc::make_cell(sc::translated(base, 3.0 * i, 0, 0), 10 + i, ty, true); c->set_local_id(i); c->division_volume_ = (ready_mask >> i & 1) ? 0.5 * c->get_volume() : 1e300; L.push_back(c); }
    cell_ptr lum = sc::make_cell(sc::translated(base, 0, 3, 0), 13, sc::make_cell_type(2, 1), true); lum->set_local_id(3); lum->division_volume_ = 0; L.push_back(lum);   // a non-epithelial cell is never ready
    std::vector<cell_ptr> orig = L; std::vector<std::vector<std::array<double, 9>>> soups; for (auto& c : L) soups.push_back(soup(*c));
    unsigned max_id = 14; bool ib; const double l_min = lmin_for(base, 1, ib); local_mesh_refiner lmr(l_min, 3 * l_min, true);
    cell_divider::run(L, l_min, lmr, max_id, false);
    int nready = __builtin_popcount(ready_mask & 7); int nnew = 0; std::set<unsigned> ids;
    for (size_t i = 0; i < L.size(); i++) { if (L[i]->get_local_id() != i) { snprintf(buf, sizeof buf, "position-index-not-renumbered-after-division: index %zu has local id %u", i, L[i]->get_local_id()); return buf; } if (!ids.insert(L[i]->get_id()).second) { snprintf(buf, sizeof buf, "duplicate-cell-id-after-division: %u", L[i]->get_id()); return buf; }
        bool is_orig = false; for (auto& o : orig) if (o == L[i]) is_orig = true; if (!is_orig) { nnew++; if (L[i]->get_id() < 14) { snprintf(buf, sizeof buf, "daughter-id-not-fresh: %u", L[i]->get_id()); return buf; } std::string e = sc::oracle_mesh(*L[i]); if (!e.empty()) return "daughter-in-population-" + e; } }
    if (nnew % 2) return "odd-number-of-new-cells";
    int ndiv = nnew / 2; if (divided) *divided = ndiv;
    if ((int)L.size() != 4 + ndiv) { snprintf(buf, sizeof buf, "population-size-inconsistent: %zu cells after %d divisions of 4", L.size(), ndiv); return buf; }
    if (ndiv > nready) return "more-divisions-than-ready-cells";
    if (max_id != 14u + 2 * ndiv) { snprintf(buf, sizeof buf, "id-counter-inconsistent: %u after %d divisions", max_id, ndiv); return buf; }
    // cells that did not divide are untouched and keep their relative order
    std::vector<int> kept; for (auto& c : L) for (int i = 0; i < 4; i++) if (orig[i] == c) kept.push_back(i);
    if (!std::is_sorted(kept.begin(), kept.end())) return "surviving-cells-changed-their-relative-order";
    for (int i : kept) { if (soup(*orig[i]) != soups[i]) { snprintf(buf, sizeof buf, "a-cell-that-did-not-divide-was-modified: original index %d", i); return buf; } }
    for (int i = 0; i < 4; i++) { bool k = std::find(kept.begin(), kept.end(), i) != kept.end(); if (!(ready_mask >> i & 1) && !k) return "a-cell-that-was-not-ready-disappeared"; if (i == 3 && !k) return "a-non-epithelial-cell-divided"; }
    for (auto& c : L) c->clear_data(); for (auto& c : orig) c->clear_data();
    return "ok";
}

static void explore(Result& R) {
    const bool th = R.args.thorough(); setup(); const int K = th ? 24 : 4; long cases = 0, ok = 0, fail = 0; double worst = 0; long unit = 0;
    for (int s = 0; s < (int)g_shapes.size(); s++) for (int a = 0; a < 16; a++) for (int l = 0; l < 4; l++) for (int k = 0; k < K; k++) {
        if (a >= 10 && !th && (l != 1 || k > 1)) continue;   /* quick: the almost axis-aligned axes with the mid-band edge length, two seeds */
        if (R.out_of_time(0.9)) { R.cap("deadline"); goto pop; }
        for (int hi = 0; hi < 4; hi++) { if (hi && !((a == 9 || a == 8 || a == 4) && l == 1 && k < 2)) continue;   /* mothers with a history: three axes, mid-band edge length, two seeds */
        if (!R.args.mine(unit++)) continue;
        Case c{s, a, l, k, hi}; cases++; progress("mode=single\ncase=" + case_text(c) + "\n");
        ForkOut fo = run_forked([&](char* buf, size_t cap) { std::string r = divide_once(c); snprintf(buf, cap, "%s", r.c_str()); }, 60);
        std::string r = fo.data; std::string err; R.mix(case_text(c) + "=>" + r);
        if (fo.status == -1000) err = "division-does-not-return: no answer within 60 s";
        else if (fo.status != 0) err = "exception-or-crash-escapes-the-division: child ended with status " + std::to_string(fo.status) + (fo.status == -6 ? " (SIGABRT: std::terminate from the noexcept wrapper)" : fo.status == -11 ? " (SIGSEGV)" : "");
        else if (r.rfind("ok:", 0) == 0) { ok++; double d = atof(r.c_str() + 3); if (d < 0) { R["successes_with_mother_outside_the_edge_band_volume_not_judged"]++; d = 0; } worst = std::max(worst, d); R.tables["successes_per_shape"][g_shapes[s].name]++; { long& w = R.tables["worst_volume_defect_per_shape_in_permille"][g_shapes[s].name]; w = std::max(w, (long)(d * 1000)); }
            // remeshing tolerance: on these 42-162 node meshes the refinement of the freshly cut daughters (merging the short edges the cut creates)
            // changes the enclosed volume by up to 25% on the unchanged tree (worst case: 42-node icosphere, l_min at the high end of the band);
            // calibrated once, frozen at 0.35
            if (d > 0.35) err = "daughter-volumes-do-not-add-up-to-the-mothers: relative defect " + jnum(d); }
        else if (r.rfind("fail", 0) == 0) { fail++; R.tables["clean_failures_per_shape"][g_shapes[s].name]++; R.tables["clean_failure_reasons"][r.substr(r.size() > 5 ? 5 : 4)]++; }
        else err = r;
        if (!err.empty()) R.violation(clause_of(err) + "|axis=" + AXN[a], case_json(c) + ": " + err, "mode=single\ncase=" + case_text(c) + "\n");
        if (cases % 150 == 1) R.sample(case_json(c)); } }
pop:
    long pops = 0, divisions = 0, pops_with_division = 0;
    for (int mask = 0; mask < 8; mask++) for (int k = 0; k < (th ? 12 : 3); k++) { if (!R.args.mine(unit++)) continue; pops++; int nd = 0; std::string r;
        ForkOut fo = run_forked([&](char* buf, size_t cap) { int d = 0; std::string x = run_population(mask, k, &d); snprintf(buf, cap, "%d|%s", d, x.c_str()); }, 120);
        std::string err; if (fo.status != 0) err = "exception-or-crash-escapes-cell_divider-run: status " + std::to_string(fo.status); else { nd = atoi(fo.data.c_str()); r = fo.data.substr(fo.data.find('|') + 1); if (r != "ok") err = r; }
        divisions += nd; if (nd) pops_with_division++; if (!err.empty()) R.violation(clause_of(err) + "|population", "3 epithelial cells + 1 lumen, ready mask " + std::to_string(mask) + ", seed " + std::to_string(k) + ": " + err, "mode=population\nmask=" + std::to_string(mask) + "\nseed=" + std::to_string(k) + "\n"); }
    R["evaluations"] = cases + pops; R["states"] = cases + pops; R["transitions"] = cases + pops; R["distinct_nontrivial"] = ok + pops_with_division; R["traces_validated_against_impl"] = cases + pops;
    R["divisions_succeeded"] = ok; R["divisions_failed_cleanly"] = fail; R["population_runs"] = pops; R["divisions_in_population_runs"] = divisions; R.reals["worst_relative_volume_defect"] = worst;
    if (R.args.nshards == 1 && (!ok || !fail)) R.internal_error = "successes or clean failures never occurred (vacuous)";
    R.strings["rule"] = "distinct_nontrivial = single divisions that succeeded (two daughters judged) + population runs with at least one division (cases are distinct tuples by construction); single divisions: every (shape, division axis forced through the virtual get_cell_division_axis, minimum edge length, RNG seed) runs the real cell_divider::divide_cell in a forked child; success => two daughters of the mother's class and type, each passing the independent mesh oracle, each on its own side of the plane through the mother's centroid, volumes adding up within the calibrated remeshing tolerance, target volume exactly half; failure => mother's triangle soup, target volume and validity unchanged, nothing escapes; populations: every subset of 3 ready cells (+1 lumen that must never divide) through cell_divider::run";
    R.assumptions = {"volume tolerance 35% (calibrated: the refinement of the freshly cut 42-162 node daughters changes the volume by up to 25% on the unchanged tree); the worst observed defect is reported", "RNG outcomes: the enumerated seeds of the guarded seam only", "l_min: three values for which the mother mesh lies inside [l_min, 3 l_min] (low end, geometric middle, high end) and one far too large, for which only no-escape / mother-untouched / topological validity are judged"};
}
static int replay(const Replay& rp, Result& R) { setup(); std::string r;
    if (rp.get("mode") == "population") { r = run_population((int)rp.geti("mask"), (int)rp.geti("seed")); }
    else { Case c; std::istringstream i(rp.get("case")); i >> c.shape >> c.axis >> c.lmin >> c.seed; if (!(i >> c.hist)) c.hist = 0; printf("%s\n", case_json(c).c_str()); r = divide_once(c); }
    printf("%s\n", r.c_str()); if (r != "ok" && r.rfind("fail", 0) != 0 && r.rfind("ok:", 0) != 0) { R.violation(clause_of(r), r, ""); return 1; } return 0; }
int main(int argc, char** argv) { return run_main(argc, argv, "C09", explore, replay); }
