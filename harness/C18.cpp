// C18 — every XML parameter reaches the simulation with its value and meaning intact (engine E2).
// Sentinel parameter sets (every tag a distinct value) x notations x numbers of cell/face types x tag orders; every single omitted tag;
// every single sign-violating value; wiring of the values into a real solver.
#include "simulation_initializer.hpp"
#include "solver_world.hpp"
#include "parameter_reader.hpp"
#include <filesystem>
using namespace vf;

typedef std::vector<std::pair<std::string, std::string>> Tags;   // ordered (tag, text)
struct FaceT { Tags tags; };
struct CellT { Tags tags; std::vector<FaceT> faces; };
struct Doc { Tags num; std::vector<CellT> cells; };

static const char* NUM_TAGS[] = {"input_mesh_file_path", "output_mesh_folder_path", "damping_coefficient", "perform_initial_triangulation", "simulation_duration", "time_step", "sampling_period", "min_edge_length", "contact_cutoff_adhesion", "contact_cutoff_repulsion", "enable_edge_swap_operation"};
static const char* CELL_TAGS[] = {"cell_type_name", "global_cell_id", "cell_mass_density", "cell_bulk_modulus", "max_inner_pressure", "area_elasticity_modulus", "avg_division_volume", "std_division_volume", "avg_growth_rate", "std_growth_rate", "target_isoperimetric_ratio", "angle_regularization_factor", "min_vol", "surface_coupling_max_curvature"};
static const char* FACE_TAGS[] = {"face_type_name", "global_face_id", "surface_tension", "adherence_strength", "repulsion_strength", "bending_modulus"};

static std::string fmt(double v, int notation) { char b[64]; if (notation == 0) snprintf(b, sizeof b, "%.12g", v); else if (notation == 1) snprintf(b, sizeof b, "%.9e", v); else snprintf(b, sizeof b, "%.9E", v); return b; }
static Doc make_doc(int ncells, int nfaces, int notation, int inf_variant) {
    Doc d; int k = 3; auto val = [&]() { double v = (k++) * 1.0009765625 * (k % 2 ? 1.0 : 0.001953125); return fmt(v, notation); };
    d.num = {{"input_mesh_file_path", "some/input_mesh.vtk"}, {"output_mesh_folder_path", "./some_output_folder"}, {"damping_coefficient", val()}, {"perform_initial_triangulation", "0"}, {"simulation_duration", val()}, {"time_step", fmt(0.00048828125, notation)}, {"sampling_period", val()}, {"min_edge_length", val()}, {"contact_cutoff_adhesion", val()}, {"contact_cutoff_repulsion", val()}, {"enable_edge_swap_operation", "1"}};
    static const char* INFS[] = {"INF", "inf", "Inf"};
    for (int c = 0; c < ncells; c++) { CellT ct; ct.tags = {{"cell_type_name", "celltype_" + std::to_string(c)}, {"global_cell_id", std::to_string(c)}, {"cell_mass_density", val()}, {"cell_bulk_modulus", val()}, {"max_inner_pressure", (c == 0 && inf_variant >= 0) ? INFS[inf_variant] : val()}, {"area_elasticity_modulus", val()},
            {"avg_division_volume", (c == ncells - 1 && inf_variant >= 0) ? INFS[(inf_variant + 1) % 3] : val()}, {"std_division_volume", val()}, {"avg_growth_rate", val()}, {"std_growth_rate", val()}, {"target_isoperimetric_ratio", val()}, {"angle_regularization_factor", val()}, {"min_vol", val()}, {"surface_coupling_max_curvature", val()}};
        for (int f = 0; f < nfaces; f++) { FaceT ft; ft.tags = {{"face_type_name", "face_" + std::to_string(c) + "_" + std::to_string(f)}, {"global_face_id", std::to_string(10 * c + f)}, {"surface_tension", val()}, {"adherence_strength", val()}, {"repulsion_strength", val()}, {"bending_modulus", val()}}; ct.faces.push_back(ft); }
        d.cells.push_back(ct); }
    return d;
}
static Tags reorder(const Tags& t, int order) { Tags o = t; size_t n = t.size(); if (order == 1) std::reverse(o.begin(), o.end()); else if (order >= 2) std::rotate(o.begin(), o.begin() + ((order - 1) % n), o.end()); return o; }
static std::string to_xml(const Doc& d, int order) {
    std::ostringstream o; o << "<?xml version=\"1.0\"?>\n<numerical_parameters>\n"; for (auto& t : reorder(d.num, order)) o << "  <" << t.first << ">" << t.second << "</" << t.first << "> <!-- comment <! -->\n"; o << "</numerical_parameters>\n<cell_types>\n";
    for (auto& c : d.cells) { o << " <cell_type>\n"; Tags ct = reorder(c.tags, order); size_t half = ct.size() / 2; for (size_t i = 0; i < half; i++) o << "  <" << ct[i].first << ">" << ct[i].second << "</" << ct[i].first << ">\n";
        o << "  <face_types>\n"; for (auto& f : c.faces) { o << "   <face_type>\n"; for (auto& t : reorder(f.tags, order)) o << "    <" << t.first << ">" << t.second << "</" << t.first << ">\n"; o << "   </face_type>\n"; } o << "  </face_types>\n";
        for (size_t i = half; i < ct.size(); i++) o << "  <" << ct[i].first << ">" << ct[i].second << "</" << ct[i].first << ">\n"; o << " </cell_type>\n"; }
    o << "</cell_types>\n"; return o.str();
}
static std::string get(const Tags& t, const std::string& k) { for (auto& x : t) if (x.first == k) return x.second; return ""; }
static double num(const std::string& s) { std::string l = s; for (auto& ch : l) ch = (char)tolower(ch); if (l == "inf") return std::numeric_limits<double>::infinity(); return strtod(s.c_str(), nullptr); }

static std::string g_path;
struct ReadOut { bool threw = false; bool right_type = false; std::string what; global_simulation_parameters sp; std::vector<cell_type_param_ptr> types; };
static vf::Result* g_R = nullptr;
static ReadOut read_doc(const std::string& xml) { ReadOut r; if (g_R) g_R->distinct_case(xml); { std::ofstream f(g_path); f << xml; }
    try { parameter_reader rd(g_path); r.sp = rd.read_numerical_parameters(); r.types = rd.read_biomechanical_parameters(); }
    catch (parameter_reader_exception& e) { r.threw = true; r.right_type = true; r.what = e.what(); } catch (std::exception& e) { r.threw = true; r.what = e.what(); }
    return r; }

static std::string compare(const Doc& d, const ReadOut& r) {
    char buf[300]; if (r.threw) return "valid-parameter-file-rejected: " + r.what;
    struct { const char* tag; double got; } N[] = {{"damping_coefficient", r.sp.damping_coefficient_}, {"simulation_duration", r.sp.simulation_duration_}, {"time_step", r.sp.time_step_}, {"sampling_period", r.sp.sampling_period_}, {"min_edge_length", r.sp.min_edge_len_}, {"contact_cutoff_adhesion", r.sp.contact_cutoff_adhesion_}, {"contact_cutoff_repulsion", r.sp.contact_cutoff_repulsion_}};
    for (auto& n : N) if (n.got != num(get(d.num, n.tag))) { snprintf(buf, sizeof buf, "numerical-parameter-differs-from-file: %s read %.17g written %s", n.tag, n.got, get(d.num, n.tag).c_str()); return buf; }
    if (r.sp.input_mesh_path_ != get(d.num, "input_mesh_file_path") || r.sp.output_folder_path_ != get(d.num, "output_mesh_folder_path")) return "path-parameter-differs-from-file";
    if (r.sp.perform_initial_triangulation_ != (get(d.num, "perform_initial_triangulation") != "0") || r.sp.enable_edge_swap_operation_ != (get(d.num, "enable_edge_swap_operation") != "0")) return "boolean-parameter-differs-from-file";
    if (r.types.size() != d.cells.size()) { snprintf(buf, sizeof buf, "number-of-cell-types-differs: read %zu written %zu", r.types.size(), d.cells.size()); return buf; }
    for (size_t c = 0; c < d.cells.size(); c++) { const cell_type_parameters& t = *r.types[c]; const Tags& w = d.cells[c].tags;
        if (t.name_ != get(w, "cell_type_name")) { snprintf(buf, sizeof buf, "cell-type-order-or-name-differs: position %zu read %s written %s", c, t.name_.c_str(), get(w, "cell_type_name").c_str()); return buf; }
        if (t.global_type_id_ != atoi(get(w, "global_cell_id").c_str())) return "global_cell_id-differs";
        struct { const char* tag; double got; } C[] = {{"cell_mass_density", t.mass_density_}, {"cell_bulk_modulus", t.bulk_modulus_}, {"max_inner_pressure", t.max_pressure_}, {"area_elasticity_modulus", t.area_elasticity_modulus_}, {"avg_division_volume", t.avg_division_vol_}, {"std_division_volume", t.std_division_vol_}, {"avg_growth_rate", t.avg_growth_rate_}, {"std_growth_rate", t.std_growth_rate_}, {"target_isoperimetric_ratio", t.target_isoperimetric_ratio_}, {"angle_regularization_factor", t.angle_regularization_factor_}, {"min_vol", t.min_vol_}, {"surface_coupling_max_curvature", t.surface_coupling_max_curvature_}};
        for (auto& x : C) if (x.got != num(get(w, x.tag))) { snprintf(buf, sizeof buf, "cell-type-parameter-differs-from-file: cell type %zu %s read %.17g written %s", c, x.tag, x.got, get(w, x.tag).c_str()); return buf; }
        if (t.face_types_.size() != d.cells[c].faces.size()) { snprintf(buf, sizeof buf, "number-of-face-types-differs: cell type %zu read %zu written %zu", c, t.face_types_.size(), d.cells[c].faces.size()); return buf; }
        for (size_t f = 0; f < t.face_types_.size(); f++) { const face_type_parameters& ft = t.face_types_[f]; const Tags& fw = d.cells[c].faces[f].tags;
            if (ft.name_ != get(fw, "face_type_name")) { snprintf(buf, sizeof buf, "face-type-order-or-name-differs: cell type %zu position %zu read %s written %s", c, f, ft.name_.c_str(), get(fw, "face_type_name").c_str()); return buf; }
            if (ft.face_type_global_id_ != atoi(get(fw, "global_face_id").c_str())) return "global_face_id-differs";
            struct { const char* tag; double got; } F[] = {{"surface_tension", ft.surface_tension_}, {"adherence_strength", ft.adherence_strength_}, {"repulsion_strength", ft.repulsion_strength_}, {"bending_modulus", ft.bending_modulus_}};
            for (auto& x : F) if (x.got != num(get(fw, x.tag))) { snprintf(buf, sizeof buf, "face-type-parameter-differs-from-file: cell type %zu face type %zu %s read %.17g written %s", c, f, x.tag, x.got, get(fw, x.tag).c_str()); return buf; } } }
    return "";
}

// wiring: a solver built from the read structures is governed by the written values
static std::string check_wiring(const Doc& d, const ReadOut& r) {
    char buf[300]; global_simulation_parameters sp = r.sp; sp.output_folder_path_ = sw::scratch_root() + "/c18"; sp.perform_initial_triangulation_ = false;
    std::vector<sw::CellSpec> cs; for (auto& t : r.types) { auto tc = std::make_shared<cell_type_parameters>(*t); tc->global_type_id_ = 0; const double R0 = 3.5 * sp.min_edge_len_ /* icosphere-42 edges = 0.55..0.62 R: inside [l_min, 3 l_min] */; cs.push_back({sc::translated(sc::scaled(sc::icosphere(1), R0, R0, R0), 40.0 * R0 * cs.size(), 0, 0), tc}); }
    try { sw::World W(cs, sp); solver& s = *W.s;
        struct { const char* what; double got, want; } X[] = {{"time step of the integrator", s.time_integrator_ptr_->dt_, num(get(d.num, "time_step"))}, {"damping of the integrator", s.time_integrator_ptr_->damping_coeff_, num(get(d.num, "damping_coefficient"))}, {"l_min of the mesh refiner", s.lmr_ptr_->get_l_min(), num(get(d.num, "min_edge_length"))},
            {"adhesion cut-off of the contact model", s.contact_model_ptr_->interaction_cutoff_adhesion_, num(get(d.num, "contact_cutoff_adhesion"))}, {"repulsion cut-off of the contact model", s.contact_model_ptr_->interaction_cutoff_repulsion_, num(get(d.num, "contact_cutoff_repulsion"))},
            {"squared adhesion cut-off of the contact model", s.contact_model_ptr_->interaction_cutoff_square_adhesion_, num(get(d.num, "contact_cutoff_adhesion")) * num(get(d.num, "contact_cutoff_adhesion"))}, {"squared repulsion cut-off of the contact model", s.contact_model_ptr_->interaction_cutoff_square_repulsion_, num(get(d.num, "contact_cutoff_repulsion")) * num(get(d.num, "contact_cutoff_repulsion"))},
            {"duration", s.sim_parameters_.simulation_duration_, num(get(d.num, "simulation_duration"))}, {"sampling period", s.sim_parameters_.sampling_period_, num(get(d.num, "sampling_period"))}};
        for (auto& x : X) if (x.got != x.want) { snprintf(buf, sizeof buf, "run-not-governed-by-the-written-value: %s is %.17g, file says %.17g", x.what, x.got, x.want); return buf; }
        if (s.lmr_ptr_->enable_edge_swap_operation_ != (get(d.num, "enable_edge_swap_operation") != "0")) return "run-not-governed-by-the-written-value: edge swap switch";
        for (size_t c = 0; c < W.cells().size() && c < d.cells.size(); c++) { const cell& cc = *W.cells()[c]; const Tags& w = d.cells[c].tags; double dens = num(get(w, "cell_mass_density")); if (std::fabs(cc.get_mass() - dens * cc.get_volume()) > 1e-12 * dens * cc.get_volume()) return "run-not-governed-by-the-written-value: cell mass density"; }
        // the density governs the inertia of every node also when the node list has free slots (a cell remeshed since it was last compacted): the node masses add up to density x volume
        if (!W.cells().empty()) { cell_ptr c0 = W.cells()[0]; local_mesh_refiner lmr(1e-9, 1e9, true); for (const edge& e0 : c0->get_edge_set()) { edge e = e0; bool can = false; try { can = lmr.can_be_merged(e, c0); } catch (...) {} if (!can) continue; edge_set es = c0->get_edge_set(); try { lmr.merge_edge(e, c0, es); } catch (...) {} break; }
            long live = 0; for (const node& n : c0->node_lst_) if (n.is_used_) live++; const double dens = num(get(d.cells[0].tags, "cell_mass_density")); const double m = c0->get_node_mass() * (double)live, want = dens * c0->get_volume();
            if (live != (long)c0->node_lst_.size() && std::fabs(m - want) > 1e-12 * want) { snprintf(buf, sizeof buf, "run-not-governed-by-the-written-value: cell mass density %.17g: the node masses of a cell with %ld live nodes in %zu slots add up to %.17g, density x volume = %.17g", dens, live, c0->node_lst_.size(), m, want); return buf; } }
        const double t0 = s.time_integrator_ptr_->get_simulation_time(); s.run_iteration(); const double t1 = s.time_integrator_ptr_->get_simulation_time(); if (t1 - t0 != num(get(d.num, "time_step"))) { snprintf(buf, sizeof buf, "run-not-governed-by-the-written-value: one iteration advanced time by %.17g, time_step says %s", t1 - t0, get(d.num, "time_step").c_str()); return buf; }
    } catch (std::exception& e) { return std::string("INTERNAL wiring run threw: ") + e.what(); }
    // tensions and bending moduli of the face types govern the faces that carry them, whichever way the triangles happen to be listed: the same surface with its triangle list
    // reversed (labels given by geometry, not by index) must feel the same tension forces and hold the same bending energy (a hinge between two face types takes the mean of their
    // moduli: symmetric in the two faces).  The bending FORCE is not compared: on the unchanged tree its in-plane part depends on which face an edge registered first.
    for (size_t ti = 0; ti < r.types.size(); ti++) { const size_t nft = r.types[ti]->face_types_.size(); if (nft < 2) continue;
        std::vector<std::vector<vec3>> F(2); double E[2] = {0, 0};
        for (int listing = 0; listing < 2; listing++) { sc::Mesh m = sc::icosphere(1); for (size_t i = 0; i < m.nv(); i++) { m.pos[3*i] *= 1.3; m.pos[3*i+2] *= 0.8; } const size_t nf = m.nf(); if (listing) { std::vector<unsigned> t2(m.tri.size()); for (size_t f = 0; f < nf; f++) for (int k = 0; k < 3; k++) t2[3 * (nf - 1 - f) + k] = m.tri[3 * f + k]; m.tri = t2; }
            auto tc = std::make_shared<cell_type_parameters>(*r.types[ti]); tc->global_type_id_ = 0; tc->area_elasticity_modulus_ = 0; tc->angle_regularization_factor_ = 0; cell_ptr c = sc::make_cell(m, 0, tc, true);
            for (face& f : c->face_lst_) if (f.is_used_) { vec3 ctr = (c->node_lst_[f.n1_id_].pos_ + c->node_lst_[f.n2_id_].pos_ + c->node_lst_[f.n3_id_].pos_) / 3.; f.type_id_ = (unsigned short)((ctr.dz() > 0.05 ? 1 : 0) + ((nft > 2 && ctr.dx() > 0.3) ? 1 : 0)); }
            c->update_all_face_normals_and_areas(); c->area_ = c->compute_area(); c->volume_ = c->compute_volume(); for (node& n : c->node_lst_) n.force_.reset();
            c->apply_surface_tension_and_membrane_elasticity(); for (node& n : c->node_lst_) F[listing].push_back(n.force_);
            c->bending_energy_ = 0; c->apply_bending_forces(); E[listing] = c->bending_energy_; c->clear_data(); }
        double scale = 0; for (auto& f : F[0]) scale = std::max(scale, f.norm());
        for (size_t i = 0; i < F[0].size(); i++) if ((F[0][i] - F[1][i]).norm() > 1e-9 * (scale + 1e-300)) { snprintf(buf, sizeof buf, "run-not-governed-by-the-written-value: with the face-type tensions of cell type %zu the tension force on node %zu is (%.6g,%.6g,%.6g) when the triangles are listed forwards and (%.6g,%.6g,%.6g) when listed backwards", ti, i, F[0][i].dx(), F[0][i].dy(), F[0][i].dz(), F[1][i].dx(), F[1][i].dy(), F[1][i].dz()); return buf; }
        if (std::fabs(E[0] - E[1]) > 1e-5 * std::max(std::fabs(E[0]), std::fabs(E[1]))) { snprintf(buf, sizeof buf, "run-not-governed-by-the-written-value: with the face-type bending moduli of cell type %zu the bending energy of the same surface is %.9g when the triangles are listed forwards and %.9g when listed backwards (a hinge between two face types must take the mean of their moduli)", ti, E[0], E[1]); return buf; } }
    return "";
}

struct SignCase { int where; int cell; int face; std::string tag; std::string value; };   // where: 0 numerical, 1 cell type, 2 face type
// the sign constraints the reader documents in its own diagnostics
static std::vector<SignCase> sign_violations() { std::vector<SignCase> v;
    v.push_back({0, 0, 0, "damping_coefficient", "-1.5"}); for (const char* t : {"simulation_duration", "time_step", "sampling_period", "min_edge_length", "contact_cutoff_adhesion", "contact_cutoff_repulsion"}) { v.push_back({0, 0, 0, t, "-2.5e-3"}); v.push_back({0, 0, 0, t, "0"}); }
    v.push_back({0, 0, 0, "sampling_period", "0.0001220703125"});   // smaller than the time step
    v.push_back({1, 0, 0, "target_isoperimetric_ratio", "-150"}); v.push_back({1, 0, 0, "target_isoperimetric_ratio", "0"}); v.push_back({1, 0, 0, "surface_coupling_max_curvature", "-7.5"});
    for (const char* t : {"global_face_id", "surface_tension", "adherence_strength", "repulsion_strength", "bending_modulus"}) v.push_back({2, 0, 0, t, std::string(t) == "global_face_id" ? "-3" : "-1e-3"});
    return v; }
static void set_tag(Tags& t, const std::string& k, const std::string& v) { for (auto& x : t) if (x.first == k) x.second = v; }
static void del_tag(Tags& t, const std::string& k) { for (size_t i = 0; i < t.size(); i++) if (t[i].first == k) { t.erase(t.begin() + i); return; } }


// 4. the initialisation entry points: the switch written in the file decides whether the cells handed to the solver are the surfaces of the mesh file or re-triangulated ones, and the
// XML entry point behaves exactly like the structure entry point fed with what the reader returns for the same file
static std::string octa_vtk(int ncell, bool type_is_index = false) {
    std::ostringstream o; o << "# vtk DataFile Version 4.2\nvtk output\nASCII\nDATASET UNSTRUCTURED_GRID\nPOINTS " << 6 * ncell << " float\n";
    double P[6][3] = {{1, 0, 0}, {-1, 0, 0}, {0, 1, 0}, {0, -1, 0}, {0, 0, 1}, {0, 0, -1}}; for (int c = 0; c < ncell; c++) { for (int i = 0; i < 6; i++) o << P[i][0] + 3.5 * c << " " << P[i][1] << " " << P[i][2] << " "; o << "\n"; }
    int T[8][3] = {{0, 2, 4}, {2, 1, 4}, {1, 3, 4}, {3, 0, 4}, {2, 0, 5}, {1, 2, 5}, {3, 1, 5}, {0, 3, 5}};
    o << "\nCELLS " << ncell << " " << 34 * ncell << "\n"; for (int c = 0; c < ncell; c++) { o << "33 8 "; for (auto& t : T) o << "3 " << t[0] + 6 * c << " " << t[1] + 6 * c << " " << t[2] + 6 * c << " "; o << "\n"; }
    o << "\nCELL_TYPES " << ncell << "\n"; for (int c = 0; c < ncell; c++) o << "42\n"; o << "\nCELL_DATA " << ncell << "\nFIELD FieldData 1\ncell_type_id 1 " << ncell << " int\n"; for (int c = 0; c < ncell; c++) o << (type_is_index ? c : 0) << " "; o << "\n"; return o.str(); }
struct InitOut { bool threw = false; std::string what; bool flag = false; std::vector<std::pair<unsigned, unsigned>> counts; };
static std::string check_initialisation(Result& R, long& cases) {
    char buf[400]; const std::string mesh_path = sw::scratch_root() + "/c18_in.vtk";
    for (int ncell = 1; ncell <= 2; ncell++) for (int lm = 0; lm < 2; lm++) { { std::ofstream f(mesh_path); f << octa_vtk(ncell); }
        InitOut out[2][2];
        for (int flag = 0; flag < 2; flag++) { Doc d = make_doc(1, 2, 0, -1); set_tag(d.num, "input_mesh_file_path", mesh_path); set_tag(d.num, "output_mesh_folder_path", sw::scratch_root() + "/c18_out"); set_tag(d.num, "perform_initial_triangulation", flag ? "1" : "0");
            set_tag(d.num, "min_edge_length", lm ? "0.2" : "0.35"); set_tag(d.num, "contact_cutoff_adhesion", "0.05"); set_tag(d.num, "contact_cutoff_repulsion", "0.05");
            std::string xml = to_xml(d, 0); if (g_R) g_R->distinct_case(xml + "|init"); { std::ofstream f(g_path); f << xml; }
            for (int entry = 0; entry < 2; entry++) { InitOut& o = out[flag][entry]; cases++;
                try { std::unique_ptr<simulation_initializer> si; srand(12345); simucell3d_verif::reset_rng_counters();   /* the sampling seeds and the rand() state of the ball-pivoting shuffle are owned by the harness: the two entry points start from the same ones */
                    if (entry == 0) si.reset(new simulation_initializer(g_path, false));
                    else { parameter_reader rd(g_path); global_simulation_parameters sp = rd.read_numerical_parameters(); auto types = rd.read_biomechanical_parameters(); si.reset(new simulation_initializer(sp, types, false)); }
                    o.flag = si->get_simulation_parameters().perform_initial_triangulation_; for (auto& c : si->get_cell_lst()) o.counts.push_back({c->get_nb_of_nodes(), c->get_nb_of_faces()});
                } catch (std::exception& e) { o.threw = true; o.what = e.what(); }
                const char* en = entry ? "structure entry point" : "XML entry point";
                if (o.threw) { snprintf(buf, sizeof buf, "INTERNAL initialisation threw (%s, switch %d, %d cells): %s", en, flag, ncell, o.what.c_str()); return buf; }
                if (o.flag != (flag != 0)) { snprintf(buf, sizeof buf, "run-not-governed-by-the-written-value: perform_initial_triangulation written %d, the parameters handed to the solver by the %s say %d", flag, en, (int)o.flag); return buf; }
                if ((int)o.counts.size() != ncell) { snprintf(buf, sizeof buf, "run-not-governed-by-the-written-value: %d cells in the mesh file, %zu initialised (%s)", ncell, o.counts.size(), en); return buf; }
                for (int c = 0; c < ncell; c++) { const bool as_file = o.counts[c].first == 6 && o.counts[c].second == 8;
                    if (!flag && !as_file) { snprintf(buf, sizeof buf, "run-not-governed-by-the-written-value: perform_initial_triangulation written 0, yet cell %d handed to the solver by the %s has %u nodes and %u faces (mesh file: 6 and 8)", c, en, o.counts[c].first, o.counts[c].second); return buf; }
                    if (flag && o.counts[c].second <= 8) { snprintf(buf, sizeof buf, "run-not-governed-by-the-written-value: perform_initial_triangulation written 1, yet cell %d handed to the solver by the %s is still the surface of the mesh file (%u nodes, %u faces)", c, en, o.counts[c].first, o.counts[c].second); return buf; } } }
            if (out[flag][0].counts != out[flag][1].counts) { snprintf(buf, sizeof buf, "run-not-governed-by-the-written-value: with switch %d the XML entry point and the structure entry point initialise different cells from the same file (first cell %u/%u faces)", flag, out[flag][0].counts[0].second, out[flag][1].counts[0].second); return buf; } } }
    // the global_cell_id written for a cell type decides what kind of cell is built from it: one cell of each of the five ids, both entry points
    { { std::ofstream f(mesh_path); f << octa_vtk(5, true); } Doc d = make_doc(5, 3, 0, -1); set_tag(d.num, "input_mesh_file_path", mesh_path); set_tag(d.num, "output_mesh_folder_path", sw::scratch_root() + "/c18_out"); set_tag(d.num, "perform_initial_triangulation", "0"); set_tag(d.num, "min_edge_length", "0.35"); set_tag(d.num, "contact_cutoff_adhesion", "0.05"); set_tag(d.num, "contact_cutoff_repulsion", "0.05");
      std::string xml = to_xml(d, 0); if (g_R) g_R->distinct_case(xml + "|kinds"); { std::ofstream f(g_path); f << xml; }
      for (int entry = 0; entry < 2; entry++) { cases++; try { std::unique_ptr<simulation_initializer> si; srand(12345); simucell3d_verif::reset_rng_counters();
            if (entry == 0) si.reset(new simulation_initializer(g_path, false)); else { parameter_reader rd(g_path); global_simulation_parameters sp = rd.read_numerical_parameters(); auto types = rd.read_biomechanical_parameters(); si.reset(new simulation_initializer(sp, types, false)); }
            auto cl = si->get_cell_lst(); if (cl.size() != 5) { snprintf(buf, sizeof buf, "run-not-governed-by-the-written-value: 5 cells in the mesh file, %zu initialised", cl.size()); return buf; }
            for (int i = 0; i < 5; i++) { cell* c = cl[i].get(); const char* kind = dynamic_cast<epithelial_cell*>(c) ? "epithelial" : dynamic_cast<ecm_cell*>(c) ? "ecm" : dynamic_cast<lumen_cell*>(c) ? "lumen" : dynamic_cast<nucleus_cell*>(c) ? "nucleus" : dynamic_cast<static_cell*>(c) ? "static" : "unknown";
                static const char* want[5] = {"epithelial", "ecm", "lumen", "nucleus", "static"}; const bool want_static = (i == 1 || i == 4);
                if (std::string(kind) != want[i] || c->is_static() != want_static || c->get_cell_type_id() != i) { snprintf(buf, sizeof buf, "run-not-governed-by-the-written-value: global_cell_id %d (%s) builds a %s cell (static: %d, type id %d) through the %s", i, want[i], kind, (int)c->is_static(), (int)c->get_cell_type_id(), entry ? "structure entry point" : "XML entry point"); return buf; } }
        } catch (std::exception& e) { snprintf(buf, sizeof buf, "INTERNAL initialisation of the five kinds threw: %s", e.what()); return buf; } } }
    return ""; }

static void explore(Result& R) {
    g_R = &R;
    std::filesystem::create_directories(sw::scratch_root()); g_path = sw::scratch_root() + "/params.xml"; long cases = 0, rejected = 0;
    // 1. values, order, INF
    const int NCMAX = R.args.thorough() ? 5 : 3, NFMAX = R.args.thorough() ? 5 : 3;
    for (int nc = 1; nc <= NCMAX; nc++) for (int nf = 1; nf <= NFMAX; nf++) for (int notation = 0; notation < 3; notation++) for (int inf = -1; inf < 3; inf++) for (int order = 0; order < 6; order++) {
        Doc d = make_doc(nc, nf, notation, inf); std::string xml = to_xml(d, order); ReadOut r = read_doc(xml); cases++; std::string e = compare(d, r);
        if (e.empty() && order == 0 && notation != 2) { e = check_wiring(d, r); if (e.rfind("INTERNAL", 0) == 0) { R.internal_error = e; return; } }
        if (!e.empty()) R.violation(clause_of(e), "cell types " + std::to_string(nc) + ", face types " + std::to_string(nf) + ", notation " + std::to_string(notation) + ", INF variant " + std::to_string(inf) + ", tag order " + std::to_string(order) + ": " + e, "mode=values\nnc=" + std::to_string(nc) + "\nnf=" + std::to_string(nf) + "\nnotation=" + std::to_string(notation) + "\ninf=" + std::to_string(inf) + "\norder=" + std::to_string(order) + "\n");
        if (cases % 150 == 1) R.sample("{\"cell_types\":" + std::to_string(nc) + ",\"face_types\":" + std::to_string(nf) + ",\"notation\":" + std::to_string(notation) + ",\"tag_order\":" + std::to_string(order) + ",\"xml_bytes\":" + std::to_string(xml.size()) + "}"); }
    // 2. every single omitted tag
    for (int nc = 1; nc <= (R.args.thorough() ? 3 : 2); nc++) for (int nf = 1; nf <= (R.args.thorough() ? 3 : 2); nf++) { Doc base = make_doc(nc, nf, 0, -1);
        auto expect_reject = [&](const Doc& d, const std::string& what) { ReadOut r = read_doc(to_xml(d, 0)); cases++; if (r.threw && r.right_type) { rejected++; return; }
            std::string e = r.threw ? ("omitted-tag-raises-the-wrong-exception-type: " + what + ": " + r.what) : ("omitted-tag-not-rejected: " + what); R.violation(clause_of(e) + "|" + what.substr(0, what.find(' ')), e, "mode=omit\nwhat=" + what + "\n"); };
        for (const char* t : NUM_TAGS) { Doc d = base; del_tag(d.num, t); expect_reject(d, std::string(t) + " (numerical_parameters)"); }
        for (int c = 0; c < nc; c++) { for (const char* t : CELL_TAGS) { Doc d = base; del_tag(d.cells[c].tags, t); expect_reject(d, std::string(t) + " (cell type " + std::to_string(c) + ")"); }
            for (int f = 0; f < nf; f++) for (const char* t : FACE_TAGS) { Doc d = base; del_tag(d.cells[c].faces[f].tags, t); expect_reject(d, std::string(t) + " (cell type " + std::to_string(c) + " face type " + std::to_string(f) + ")"); }
            { Doc d = base; d.cells[c].faces.clear(); expect_reject(d, "all face_type elements (cell type " + std::to_string(c) + ")"); } }
        { Doc d = base; d.cells.clear(); expect_reject(d, "all cell_type elements"); } }
    // 3. every single sign-violating value
    for (int nc = 1; nc <= 2; nc++) { Doc base = make_doc(nc, 2, 0, -1); for (auto& v : sign_violations()) for (int c = 0; c < (v.where ? nc : 1); c++) for (int f = 0; f < (v.where == 2 ? 2 : 1); f++) { Doc d = base;
            if (v.where == 0) set_tag(d.num, v.tag, v.value); else if (v.where == 1) set_tag(d.cells[c].tags, v.tag, v.value); else set_tag(d.cells[c].faces[f].tags, v.tag, v.value);
            ReadOut r = read_doc(to_xml(d, 0)); cases++; if (r.threw && r.right_type) { rejected++; continue; }
            std::string what = v.tag + "=" + v.value; std::string e = r.threw ? ("sign-violating-value-raises-the-wrong-exception-type: " + what + ": " + r.what) : ("sign-violating-value-not-rejected: " + what + " (the reader's own diagnostics state the constraint)");
            R.violation(clause_of(e) + "|" + v.tag, e, "mode=sign\ntag=" + v.tag + "\nvalue=" + v.value + "\n"); } }
    { std::string e = check_initialisation(R, cases); if (e.rfind("INTERNAL", 0) == 0) { R.internal_error = e; return; } if (!e.empty()) R.violation(clause_of(e) + "|initialisation", e, "mode=initialisation\n"); }
    sw::cleanup_scratch();
    R["evaluations"] = cases; R["states"] = cases; R["transitions"] = cases; R["distinct_nontrivial"] = cases; R["traces_validated_against_impl"] = cases; R["files_rejected_as_expected"] = rejected;
    R.strings["rule"] = "distinct_nontrivial = number of DISTINCT parameter file texts handed to the real reader (hashed); a case = one generated parameter file: sentinel files (every tag a distinct exactly representable value; 1-3 cell types x 1-3 face types x plain/scientific/upper-case-E notation x INF spellings x identity/reversed/rotated tag order) compared field by field with strtod of the written text and with a solver built from them; every single omitted tag / section and every single value violating a constraint stated by the reader's own diagnostics must raise parameter_reader_exception";
    R.assumptions = {"constraint table is conservative: a value is required to be rejected only where the reader's own diagnostic text states the constraint (negative for damping/tensions/strengths/moduli/ids and for surface_coupling_max_curvature, non-positive for duration, time step, sampling period, edge length, cut-offs, isoperimetric ratio, sampling period below the time step)", "empty / non-numeric elements are C17's business"};
}
static int replay(const Replay& rp, Result& R) { printf("C18 replay: re-run the check (cases are generated deterministically from the listed parameters): mode=%s\n", rp.get("mode").c_str()); Result R2; R2.args = R.args; R2.property = "C18"; explore(R2); for (auto& v : R2.violations) if (v.key == rp.get("key")) { R.violation(v.key, v.what, ""); return 1; } return 0; }
int main(int argc, char** argv) { return run_main(argc, argv, "C18", explore, replay); }
