// C16 — mesh files written by the simulator are read back as the same tissue.
// Exhaustive product: populations (1-3 cells, every cell type, cells with free slots) x coordinate scales/signs x both writer
// entry points; independent tokenizer validates every declared count; real reader + real initializer read the file back.
#include "sc3d.hpp"
#include "mesh_writer.hpp"
#include "mesh_reader.hpp"
#include "simulation_initializer.hpp"
#include <filesystem>
using namespace vf;

static std::string g_dir; static std::string* g_digest = nullptr;

#include "vtk_tok.hpp"
using namespace vtk;
struct CellSpec { int mesh; int type; int history; };      // history: 0 none, 1 one split (no free slot), 2 split+merge (free slots), 3 two merges (free node and face slots), 4 two merges in descending order of node ids (the free queues are filled out of order)
struct Case { std::vector<CellSpec> cells; int xform; int writer; int ids = 0; /* 1: persistent ids 2*position+1, as after removals and divisions */ };   // writer 0 = mesh_writer::write, 1 = write_cell_data_file(path, cells, rebase=true)

static std::vector<sc::Mesh> g_meshes;
static const int NS = 8;
static const double XS[NS] = {1.0, -1.0, 1e-6, 1e5, 1e-42, 1e39, 1e-101, 1e101};   // the last two: three-digit decimal exponents (the longest tokens the coordinate format produces)   // length units from far below to far above what single precision can represent
static sc::Mesh placed(const sc::Mesh& m, int xform, int slot) { // slot separates the cells of one population
    double s = XS[xform % NS]; std::array<double, 9> R = sc::ID3; if (s < 0) { R = {-1, 0, 0, 0, -1, 0, 0, 0, -1}; s = 1; }
    bool mixed = xform >= NS; std::array<double, 3> t = {(mixed ? -1.75 : 0.0) + 3.0 * slot, mixed ? 0.625 : 0.0, mixed ? -2.5 : 0.0};
    sc::Mesh o = sc::transformed(m, R, {0, 0, 0}); for (size_t i = 0; i < o.nv(); i++) { o.pos[3*i] = (o.pos[3*i] + t[0]) * s; o.pos[3*i+1] = (o.pos[3*i+1] + t[1]) * s; o.pos[3*i+2] = (o.pos[3*i+2] + t[2]) * s; } return o; }

static cell_ptr build_cell(const CellSpec& cs, int xform, int slot, unsigned id, std::vector<cell_type_param_ptr>& types) {
    cell_ptr c = sc::make_cell(placed(g_meshes[cs.mesh], xform, slot), id, types[cs.type], true);
    double L = 0; for (const edge& e : c->get_edge_set()) L = std::max(L, (c->node_lst_[e.n1()].pos_ - c->node_lst_[e.n2()].pos_).norm());
    local_mesh_refiner lmr(0.01 * L, 100 * L, true);
    auto first_edge = [&](bool need_merge) -> std::optional<edge> { for (const edge& e : c->get_edge_set()) { edge ec = e; if (!need_merge || lmr.can_be_merged(ec, c)) return e; } return std::nullopt; };
    if (cs.history >= 1 && cs.history <= 2) { auto e = first_edge(false); edge ee = *e; edge_set es = c->get_edge_set(); lmr.split_edge(ee, c, es); }
    if (cs.history == 2) { auto e = first_edge(true); if (e) { edge ee = *e; edge_set es = c->get_edge_set(); lmr.merge_edge(ee, c, es); } }
    if (cs.history == 4) { auto last_edge = [&]() -> std::optional<edge> { std::optional<edge> r; unsigned best = 0; for (const edge& e : c->get_edge_set()) { edge ec = e; if (std::min(e.n1(), e.n2()) >= best && std::min(e.n1(), e.n2()) > 0 && lmr.can_be_merged(ec, c)) { best = std::min(e.n1(), e.n2()); r = e; } } return r; };
        auto lowest_edge = [&]() -> std::optional<edge> { std::optional<edge> r; unsigned best = ~0u; for (const edge& e : c->get_edge_set()) { edge ec = e; unsigned lo = std::min(e.n1(), e.n2()); if (lo > 0 && lo < best && lmr.can_be_merged(ec, c)) { best = lo; r = e; } } return r; };
        if (auto e = last_edge()) { edge ee = *e; edge_set es = c->get_edge_set(); lmr.merge_edge(ee, c, es); } if (auto e = lowest_edge()) { edge ee = *e; edge_set es = c->get_edge_set(); lmr.merge_edge(ee, c, es); } }
    if (cs.history == 3) for (int k = 0; k < 2; k++) { auto e = first_edge(true); if (e) { edge ee = *e; edge_set es = c->get_edge_set(); lmr.merge_edge(ee, c, es); } }
    c->update_all_face_normals_and_areas(); c->area_ = c->compute_area(); c->volume_ = c->compute_volume();
    return c;
}

static std::string run_case(const Case& cs, long* free_slot_cells = nullptr) {
    std::vector<cell_type_param_ptr> types; for (short g = 0; g < 5; g++) types.push_back(sc::make_cell_type(g, 3));
    std::vector<cell_ptr> cells; for (size_t i = 0; i < cs.cells.size(); i++) cells.push_back(build_cell(cs.cells[i], cs.xform, (int)i, cs.ids == 1 ? (unsigned)(2 * i + 1) : cs.ids == 2 ? (unsigned)(70000 + 3 * i) : (unsigned)i, types)); for (size_t i = 0; i < cells.size(); i++) cells[i]->set_local_id((unsigned)i);
    if (free_slot_cells) for (auto& c : cells) if (!c->free_node_queue_.empty() || !c->free_face_queue_.empty()) (*free_slot_cells)++;
    // what must come back: per cell the compacted triangle list (live faces in slot order, node ids renumbered by rank among live nodes) and coordinates
    struct Expect { std::vector<std::array<double, 3>> pos; std::vector<std::array<unsigned, 3>> tri; short type; };
    std::vector<Expect> ex; for (auto& c : cells) { Expect e; e.type = c->get_cell_type()->global_type_id_; std::map<unsigned, unsigned> rank; unsigned r = 0; for (unsigned i = 0; i < c->node_lst_.size(); i++) if (c->node_lst_[i].is_used_) { rank[i] = r++; e.pos.push_back({c->node_lst_[i].pos_.dx(), c->node_lst_[i].pos_.dy(), c->node_lst_[i].pos_.dz()}); }
        for (const face& f : c->face_lst_) if (f.is_used_) e.tri.push_back({rank[f.n1_id_], rank[f.n2_id_], rank[f.n3_id_]}); ex.push_back(e); }
    std::string cp = g_dir + "/cells.vtk", fp = g_dir + "/faces.vtk"; std::remove(cp.c_str()); std::remove(fp.c_str());
    std::string err; char buf[400];
    try { if (cs.writer == 0) mesh_writer::write(cp, fp, cells); else mesh_writer::write_cell_data_file(cp, cells, cs.writer == 1); }
    catch (std::exception& e) { err = std::string("writer-threw-on-a-valid-population: ") + e.what(); }
    Parsed P;
    if (g_digest) { std::ifstream f(cp); std::stringstream ss; ss << f.rdbuf(); *g_digest += ss.str(); }
    if (err.empty()) err = tokenize(cp, P, cs.writer == 0);
    if (err.empty() && cs.writer == 0) { Parsed PF; std::string e2 = tokenize(fp, PF, true); if (!e2.empty()) {
        // the face-data file carries two FIELD blocks (cell data on faces, then point data); only its geometry section counts are checked here
        if (e2.rfind("unexpected-trailing-content", 0) != 0 && e2.rfind("CELL_DATA-count", 0) != 0 && e2.rfind("field-length", 0) != 0 && e2.rfind("CELL_TYPES-count-differs", 0) != 0) err = "face-data-file: " + e2; } }
    // writer 2 = write_cell_data_file(path, cells, rebase = false) (what the polarization writer calls): the cells are written as they are, unused slots included; the file must still be
    // consistent with its own declared counts and readable
    if (cs.writer == 2) { if (err.empty()) try { mesh_reader rd(cp, false); std::vector<mesh> ms = rd.read(); if (ms.size() != cells.size()) { snprintf(buf, sizeof buf, "reader-returns-different-number-of-cells: %zu vs %zu", ms.size(), cells.size()); err = buf; } } catch (std::exception& e) { err = std::string("reader-rejects-a-file-the-writer-produced: ") + e.what(); }
        for (auto& c : cells) c->clear_data(); return err; }
    if (err.empty()) { size_t tot = 0; for (auto& e : ex) tot += e.pos.size(); if (P.pts.size() != 3 * tot) { snprintf(buf, sizeof buf, "point-count-differs-from-live-nodes: file has %zu points, population has %zu live nodes", P.pts.size() / 3, tot); err = buf; }
        else if (P.cells.size() != ex.size()) { snprintf(buf, sizeof buf, "cell-count-differs: file %zu population %zu", P.cells.size(), ex.size()); err = buf; } }
    // real reader
    if (err.empty()) try {
        mesh_reader rd(cp, false); std::vector<mesh> ms = rd.read();
        if (ms.size() != ex.size()) { snprintf(buf, sizeof buf, "reader-returns-different-number-of-cells: %zu vs %zu", ms.size(), ex.size()); err = buf; }
        for (size_t i = 0; i < ms.size() && err.empty(); i++) { const mesh& m = ms[i]; const Expect& e = ex[i];
            if (m.node_pos_lst.size() != 3 * e.pos.size()) { snprintf(buf, sizeof buf, "cell-%zu-node-count-differs: read %zu expected %zu", i, m.node_pos_lst.size() / 3, e.pos.size()); err = buf; break; }
            if (m.face_point_ids.size() != e.tri.size()) { snprintf(buf, sizeof buf, "cell-%zu-triangle-count-differs: read %zu expected %zu", i, m.face_point_ids.size(), e.tri.size()); err = buf; break; }
            for (size_t f = 0; f < e.tri.size() && err.empty(); f++) { const auto& rf = m.face_point_ids[f]; if (rf.size() != 3 || rf[0] != e.tri[f][0] || rf[1] != e.tri[f][1] || rf[2] != e.tri[f][2]) { snprintf(buf, sizeof buf, "cell-%zu-triangle-%zu-differs: read (%u,%u,%u) expected (%u,%u,%u)", i, f, rf.size() > 0 ? rf[0] : 0, rf.size() > 1 ? rf[1] : 0, rf.size() > 2 ? rf[2] : 0, e.tri[f][0], e.tri[f][1], e.tri[f][2]); err = buf; } }
            for (size_t n = 0; n < e.pos.size() && err.empty(); n++) for (int k = 0; k < 3; k++) { double w = e.pos[n][k], r = m.node_pos_lst[3*n+k]; if (std::fabs(r - w) > 0.50001e-4 * std::pow(10.0, std::floor(std::log10(std::max(std::fabs(w), 1e-300)))) + 1e-300) { snprintf(buf, sizeof buf, "cell-%zu-node-%zu-coordinate-beyond-written-precision: wrote %.17g read %.17g", i, n, w, r); err = buf; break; } } }
        if (err.empty() && cs.writer == 0) { std::vector<short> ty = rd.get_cell_types(); if (ty.size() != ex.size()) { snprintf(buf, sizeof buf, "cell-type-array-length-differs: %zu vs %zu", ty.size(), ex.size()); err = buf; } else for (size_t i = 0; i < ty.size(); i++) if (ty[i] != ex[i].type) { snprintf(buf, sizeof buf, "cell-%zu-type-differs: read %d wrote %d", i, ty[i], ex[i].type); err = buf; break; } }
    } catch (std::exception& e) { err = std::string("reader-rejects-a-file-the-writer-produced: ") + e.what(); }
    // output of a run usable as input of another: the real initializer (initial triangulation off)
    if (err.empty() && cs.writer == 0) try {
        global_simulation_parameters sp = sc::make_sim_params(g_dir + "/out", 0.3); sp.input_mesh_path_ = cp; sp.perform_initial_triangulation_ = false;
        simulation_initializer init(sp, types, false); auto lst = init.get_cell_lst();
        if (lst.size() != ex.size()) { snprintf(buf, sizeof buf, "initializer-returns-different-number-of-cells: %zu vs %zu", lst.size(), ex.size()); err = buf; }
        for (size_t i = 0; i < lst.size() && err.empty(); i++) { std::string e = sc::oracle_mesh(*lst[i]); if (!e.empty()) err = "reloaded-cell-" + std::to_string(i) + "-" + e; else if (lst[i]->get_cell_type()->global_type_id_ != ex[i].type) err = "reloaded-cell-type-differs"; }
        for (auto& c : lst) c->clear_data();
    } catch (std::exception& e) { err = std::string("initializer-rejects-a-file-the-writer-produced: ") + e.what(); }
    for (auto& c : cells) c->clear_data();
    return err;
}

static std::string case_text(const Case& c) { std::ostringstream o; o << c.xform << " " << c.writer << " " << c.cells.size(); for (auto& s : c.cells) o << " " << s.mesh << " " << s.type << " " << s.history; o << " " << c.ids; return o.str(); }
static Case case_parse(const std::string& s) { std::istringstream i(s); Case c; size_t n; i >> c.xform >> c.writer >> n; c.cells.resize(n); for (auto& x : c.cells) i >> x.mesh >> x.type >> x.history; if (!(i >> c.ids)) c.ids = 0; return c; }
static std::string case_json(const Case& c) { std::ostringstream o; o << "{\"persistent_ids\":\"" << (c.ids == 1 ? "2*position+1" : c.ids == 2 ? "70000+3*position" : "position") << "\",\"writer\":\"" << (c.writer == 2 ? "write_cell_data_file(no compaction)" : c.writer ? "write_cell_data_file" : "mesh_writer::write") << "\",\"coordinate_transform\":" << c.xform << ",\"cells\":["; for (size_t i = 0; i < c.cells.size(); i++) { if (i) o << ","; o << "{\"mesh\":\"" << g_meshes[c.cells[i].mesh].name << "\",\"type\":" << c.cells[i].type << ",\"history\":" << c.cells[i].history << "}"; } o << "]}"; return o.str(); }

static void setup() { using namespace sc; g_meshes = {tetrahedron(), octahedron(), cube12(), icosahedron(), dented_cube(), icosphere(1), icosphere(6) /* index 6: 40962 nodes, only used by the one large population */};
    { Mesh m = octahedron(); Mesh u; u.name = "octahedron_with_a_point_no_triangle_uses"; for (size_t i = 0; i < m.nv(); i++) { if (i == 3) { u.pos.push_back(0.1); u.pos.push_back(0.2); u.pos.push_back(0.05); } for (int k = 0; k < 3; k++) u.pos.push_back(m.pos[3*i+k]); } for (unsigned t : m.tri) u.tri.push_back(t >= 3 ? t + 1 : t); g_meshes.push_back(u); }   /* index 7: a free node slot without any free face slot */
    g_dir = scratch_base() + "/C16-" + std::to_string(getpid()); std::filesystem::create_directories(g_dir); }

static void explore(Result& R) {
    const bool th = R.args.thorough(); setup(); long cases = 0, with_free = 0;
    std::vector<Case> all;
    int nx = 2 * NS; int nm = 6;   /* meshes 0..5 in the products; 6 (large) and 7 (unreferenced point) have their own cases */
    // single cells: every mesh x type x history x transform x writer
    for (int m = 0; m < nm; m++) for (int t = 0; t < 5; t++) for (int h = 0; h < 5; h++) for (int x = 0; x < nx; x++) for (int w = 0; w < 2; w++) { if (!th && (x % NS == 1 || (x >= NS && x % NS >= 2)) && h != 2) continue; if (h == 4 && !th && t != 0 && t != 3) continue; all.push_back({{{m, t, h}}, x, w}); }
    // pairs and triples: type combinations x a few meshes (node offsets of the second/third cell matter)
    for (int t1 = 0; t1 < 5; t1++) for (int t2 = 0; t2 < 5; t2++) for (int h1 : {0, 2}) for (int h2 : {0, 3}) for (int x : {0, 2, NS + 1, 4, 5}) for (int w = 0; w < 2; w++) { if (x >= 4 && x < NS && (t1 + t2) % 2) continue; all.push_back({{{1, t1, h1}, {2, t2, h2}}, x, w}); }
    for (int m1 = 0; m1 < nm; m1++) for (int m2 = 0; m2 < nm; m2++) for (int m3 : {0, 3, 5}) for (int h : {0, 2}) { if (!th && (m1 + m2) % 2) continue; all.push_back({{{m1, 0, h}, {m2, 1, 0}, {m3, 3, h}}, NS, 0}); all.push_back({{{m1, 2, 0}, {m2, 4, h}, {m3, 0, 3}}, 0, 1}); }
    // the uncompacted writer on every single cell with a remeshing history and on pairs (the offsets of the second cell depend on the slots of the first)
    for (int m = 0; m < nm; m++) for (int t : {0, 1, 4}) for (int h = 1; h < 5; h++) for (int x : {0, 2}) all.push_back({{{m, t, h}}, x, 2});
    for (int t1 : {0, 2}) for (int h1 : {2, 3}) for (int h2 : {0, 3}) all.push_back({{{1, t1, h1}, {2, 1, h2}}, 0, 2});
    // an input point no triangle uses: a free node slot with no free face slot (compaction must still happen)
    for (int t : {0, 1, 2, 4}) for (int x : {0, 2}) for (int w = 0; w < 3; w++) all.push_back({{{7, t, 0}}, x, w});
    for (int w = 0; w < 2; w++) { all.push_back({{{7, 0, 0}, {1, 2, 0}}, 0, w}); all.push_back({{{2, 0, 2}, {7, 1, 0}, {7, 0, 0}}, 0, w}); }
    // one large population: two cells of 40962 nodes / 81920 triangles each (point and cell numbers beyond 16 bits, offsets of the second cell beyond 32767)
    for (int w = 0; w < 2; w++) all.push_back({{{6, 0, 0}, {6, 2, 0}}, 0, w});
    { size_t n0 = all.size(); for (size_t i = 0; i < n0; i++) if (all[i].cells.size() >= 2 && (th || i % 2 == 0)) { Case c = all[i]; c.ids = 1; all.push_back(c); if (i % 4 == 0) { c.ids = 2; all.push_back(c); } } }   // the same populations with persistent ids that differ from the list positions
    long unit = 0; for (const Case& c : all) { if (!R.args.mine(unit++)) continue; if (R.out_of_time(0.9)) { R.cap("deadline"); break; } cases++;
        std::string dg; g_digest = &dg; std::string e = run_case(c, &with_free); g_digest = nullptr; R.mix(dg + e); R.distinct_case(dg);
        if (!e.empty()) R.violation(clause_of(e) + "|" + (c.writer ? "write_cell_data_file" : "mesh_writer::write") + "|cells=" + std::to_string(c.cells.size()), e + " [" + case_json(c) + "]", "case=" + case_text(c) + "\n");
        if (cases % 400 == 1) R.sample(case_json(c)); }
    std::filesystem::remove_all(g_dir);
    R["evaluations"] = cases; R["transitions"] = cases; R["states"] = cases; R["distinct_nontrivial"] = cases; R["traces_validated_against_impl"] = cases; R["cells_written_with_free_slots"] = with_free;
    R.strings["rule"] = "distinct_nontrivial = number of DISTINCT cell-data files written (hashed file text; cases that differ only in something the file does not record produce the same file); a case = (population of 1-3 cells: mesh, cell type, remeshing history leaving free slots or not, incl. two collapses in descending order of node ids) x coordinate transform (x1, point reflection, x1e-6, x1e5, x1e-42, x1e39, each also shifted to mixed signs) x writer entry point; the file is checked by an independent tokenizer (every declared count against contents), read back by the real mesh_reader (cells, triangles, coordinates to %.4e, cell types) and loaded by the real simulation_initializer (initial triangulation off) whose cells must pass the mesh oracle";
    R.assumptions = {"expected renumbering: nodes by rank among live nodes, triangles in slot order (what compaction does)", "coordinate tolerance half a unit in the 4th decimal of the scientific notation", "face-data file: only the geometry section counts are validated"};
}
static int replay(const Replay& rp, Result& R) { setup(); Case c = case_parse(rp.get("case")); std::string e1 = run_case(c), e2 = run_case(c); std::filesystem::remove_all(g_dir); if (e1 != e2) { printf("replay diverged\n"); return 0; } printf("%s\n%s\n", case_json(c).c_str(), e1.c_str()); if (!e1.empty()) { R.violation(clause_of(e1), e1, ""); return 1; } return 0; }
int main(int argc, char** argv) { return run_main(argc, argv, "C16", explore, replay); }
