// C03 — one position update follows the documented integration law (engine E2 with n-step traces; 3x2 builds through hook H1).
// Enumerates populations x force/momentum patterns x mutual couplings x (dt, damping, density) x n steps; an independent array-based
// reference of the statement's law runs side by side with time_integration_scheme::update_nodes_positions.
#include "sc3d.hpp"
#include "time_integration.hpp"
#include "local_mesh_refiner.hpp"
using namespace vf;

struct RefNode { double x[3], p[3], f[3]; bool live; };
struct RefCell { std::vector<RefNode> n; bool is_static; double node_mass; };

struct Case { int pop, fpat, ppat, coupling, dti, dampi, densi, steps, ids = 0, slots = 0; };
// persistent ids carried by the cells at list positions 0..n-1: start-up; after a removal at the list head; after removals in between; late in a run (ids far ahead of positions)
static unsigned scheme_id(int scheme, unsigned i) { switch (scheme) { case 0: return i; case 1: return i + 1; case 2: return 2 * i; case 3: return 3 + 4 * i; default: return 70000 + 3 * i; /* beyond 16 bits */ } }
static const double DTS[] = {1e-3, 0.5, 1e-7}, DAMPS[] = {0.1, 5.0, 1e3}, DENS[] = {1.0, 1e-15 /* per-node masses of 1e-17: what a micrometre cell weighs in kilograms */, 1e3};   // the third value of each only in the thorough tier
static const char* pop_name[] = {"[epithelial octahedron]", "[epithelial octahedron, epithelial tetrahedron]", "[epithelial octahedron, epithelial tetrahedron, ECM octahedron]", "[static cube, epithelial octahedron, epithelial tetrahedron]", "[epithelial octahedron, epithelial tetrahedron, epithelial cube]", "[static cube, ECM octahedron] (no cell can move: the clock still advances)"};
static std::string case_json(const Case& c) { std::ostringstream o; o << "{\"population\":\"" << pop_name[c.pop] << "\",\"force_pattern\":" << c.fpat << ",\"momentum_pattern\":" << c.ppat << ",\"coupling\":" << c.coupling << ",\"dt\":" << DTS[c.dti] << ",\"damping\":" << DAMPS[c.dampi] << ",\"density\":" << DENS[c.densi] << ",\"persistent_ids\":\"" << scheme_id(c.ids, 0) << "," << scheme_id(c.ids, 1) << ",..\",\"free_node_slots\":" << c.slots << ",\"steps\":" << c.steps << "}"; return o.str(); }
static std::string case_text(const Case& c) { std::ostringstream o; o << c.pop << " " << c.fpat << " " << c.ppat << " " << c.coupling << " " << c.dti << " " << c.dampi << " " << c.densi << " " << c.steps << " " << c.ids << " " << c.slots; return o.str(); }

static void pattern(int pat, const double x[3], unsigned cell, unsigned node, double out[3]) {
    switch (pat) { case 0: out[0] = out[1] = out[2] = 0; break; case 1: out[0] = 1; out[1] = -1; out[2] = 0.5; break; case 2: out[0] = 1e3; out[1] = -2e3; out[2] = 0.5e3; break;
        default: out[0] = 0.3 * x[1] - 0.1 * cell; out[1] = -0.7 * x[0] + 0.05 * node; out[2] = 0.2 * x[2] * x[0]; } }

// couplings are lists of mutually coupled groups: (cell, node) members
typedef std::vector<std::pair<unsigned, unsigned>> Group;
static std::vector<Group> couplings_for(int pop, int coupling) {
    std::vector<Group> g; int a = (pop == 3) ? 1 : 0, b = a + 1;       // the two epithelial cells
    if (pop == 0 || coupling == 0) return g;
    if (coupling == 1) g.push_back({{a, 0}, {b, 0}});
    if (coupling == 2) { g.push_back({{a, 0}, {b, 0}}); g.push_back({{a, 2}, {b, 3}}); }
    if (coupling == 3) g.push_back({{a, 4}, {b, 1}});                  // lower-index cell holds the higher node id
#if CONTACT_MODEL_INDEX == 2
    if (coupling == 4 && pop == 4) g.push_back({{0, 1}, {1, 2}, {2, 5}});  // one node coupled to a node on each of two other cells
#endif
    return g;
}

static long g_cases_with_motion = 0;
static std::string run_case(const Case& cs, long* steps_done = nullptr, long* free_slots = nullptr) { bool any_motion = false;
    using namespace sc; std::vector<cell_ptr> cells; char buf[400];
    auto epi = [&]() { auto t = make_cell_type(0, 3); t->mass_density_ = DENS[cs.densi]; return t; }; auto stat = [&](short g) { auto t = make_cell_type(g, 1); t->mass_density_ = DENS[cs.densi]; return t; };
    switch (cs.pop) { case 0: cells = {make_cell(octahedron(), 0, epi())}; break; case 1: cells = {make_cell(octahedron(), 0, epi()), make_cell(translated(tetrahedron(), 2.5, 0, 0), 1, epi())}; break;
        case 2: cells = {make_cell(octahedron(), 0, epi()), make_cell(translated(tetrahedron(), 2.5, 0, 0), 1, epi()), make_cell(translated(octahedron(), 0, 3, 0), 2, stat(1))}; break;
        case 3: cells = {make_cell(translated(cube12(), 0, -3, 0), 0, stat(4)), make_cell(octahedron(), 1, epi()), make_cell(translated(tetrahedron(), 2.5, 0, 0), 2, epi())}; break;
        case 5: cells = {make_cell(translated(cube12(), 0, -3, 0), 0, stat(4)), make_cell(translated(octahedron(), 0, 3, 0), 1, stat(1))}; break;
        default: cells = {make_cell(octahedron(), 0, epi()), make_cell(translated(tetrahedron(), 2.5, 0, 0), 1, epi()), make_cell(translated(cube12(), 0, 0, 2.5), 2, epi())}; }
    for (unsigned i = 0; i < cells.size(); i++) { cells[i]->set_id(scheme_id(cs.ids, i)); cells[i]->set_local_id(i); }
    // free node slots as remeshing leaves them: one real edge collapse on every non-static cell that admits one (the node list keeps the dead slot until the next rebase)
    if (cs.slots) { local_mesh_refiner lmr(1e-3, 1e3, true); for (auto& c : cells) { if (c->is_static()) continue; for (const edge& e0 : c->get_edge_set()) { edge e = e0; bool can = false; try { can = lmr.can_be_merged(e, c); } catch (...) {} if (!can) continue; edge_set es = c->get_edge_set(); try { lmr.merge_edge(e, c, es); } catch (...) {} break; }
            c->update_all_face_normals_and_areas(); c->area_ = c->compute_area(); c->volume_ = c->compute_volume(); } }
    auto kth_live = [&](unsigned ci, unsigned k) { unsigned seen = 0, last = 0; for (unsigned i = 0; i < cells[ci]->node_lst_.size(); i++) if (cells[ci]->node_lst_[i].is_used_) { last = i; if (seen++ == k) return i; } return last; };
    std::vector<Group> groups = couplings_for(cs.pop, cs.coupling); for (auto& g : groups) for (auto& mem : g) mem.second = kth_live(mem.first, mem.second);
    { bool clash = false; for (auto& g : groups) for (auto& h : groups) if (&g != &h) for (auto& a : g) for (auto& b : h) if (a == b) clash = true; if (clash) { for (auto& c : cells) c->clear_data(); return "skip"; } }
    global_simulation_parameters sp = make_sim_params("unused", 0.3); sp.time_step_ = DTS[cs.dti]; sp.damping_coefficient_ = DAMPS[cs.dampi];
    time_integration_scheme integ(sp, false);
    // reference state
    std::vector<RefCell> ref(cells.size());
    for (unsigned ci = 0; ci < cells.size(); ci++) { cell& c = *cells[ci]; ref[ci].is_static = c.is_static(); { size_t live = 0; for (const node& n : c.node_lst_) if (n.is_used_) live++; ref[ci].node_mass = DENS[cs.densi] * c.get_volume() / (double)live; if (live < c.node_lst_.size() && free_slots) (*free_slots)++; } ref[ci].n.resize(c.node_lst_.size());
        for (unsigned ni = 0; ni < c.node_lst_.size(); ni++) { node& n = c.node_lst_[ni]; RefNode& r = ref[ci].n[ni]; r.live = n.is_used_; r.x[0] = n.pos_.dx(); r.x[1] = n.pos_.dy(); r.x[2] = n.pos_.dz(); double p[3]; pattern(cs.ppat, r.x, ci, ni, p);
#if DYNAMIC_MODEL_INDEX == 0
            n.momentum_ = vec3(p[0], p[1], p[2]); for (int k = 0; k < 3; k++) r.p[k] = p[k];
#else
            for (int k = 0; k < 3; k++) r.p[k] = 0;
#endif
        } }
    // install the couplings in the real nodes
    for (auto& g : groups) for (size_t i = 0; i < g.size(); i++) for (size_t j = 0; j < g.size(); j++) { if (i == j) continue; node& n = cells[g[i].first]->node_lst_[g[i].second];
#if CONTACT_MODEL_INDEX == 1
        n.coupled_node_ = std::make_pair(g[j].first, g[j].second);
#elif CONTACT_MODEL_INDEX == 2
        n.coupled_nodes_map_[g[j].first] = std::make_pair(g[j].second, 0.01);
#endif
        (void)n; }
    const double dt = DTS[cs.dti], cdamp = DAMPS[cs.dampi]; double ref_time = 0; std::string err;
    for (int step = 0; step < cs.steps && err.empty(); step++) {
        // fresh forces (same function of the current positions on both sides)
        for (unsigned ci = 0; ci < cells.size(); ci++) for (unsigned ni = 0; ni < ref[ci].n.size(); ni++) { RefNode& r = ref[ci].n[ni]; if (!r.live) continue; double f[3]; pattern(cs.fpat, r.x, ci, ni, f); for (int k = 0; k < 3; k++) r.f[k] = f[k]; cells[ci]->node_lst_[ni].force_ = vec3(f[0], f[1], f[2]); }
        // ---- reference law of the statement
        std::vector<std::vector<char>> done(cells.size()); for (unsigned ci = 0; ci < cells.size(); ci++) done[ci].assign(ref[ci].n.size(), 0);
        std::vector<std::vector<char>> must_move(cells.size()); for (unsigned ci = 0; ci < cells.size(); ci++) must_move[ci].assign(ref[ci].n.size(), 0);
#if CONTACT_MODEL_INDEX != 0
        for (auto& g : groups) { double m = 0, F[3] = {0, 0, 0}, P[3] = {0, 0, 0}; for (auto& mem : g) { m += ref[mem.first].node_mass; for (int k = 0; k < 3; k++) { F[k] += ref[mem.first].n[mem.second].f[k]; P[k] += ref[mem.first].n[mem.second].p[k]; } }
            m /= g.size(); for (int k = 0; k < 3; k++) { F[k] /= g.size(); P[k] /= g.size(); }
            double d[3];
    #if DYNAMIC_MODEL_INDEX == 0
            double Pn[3]; for (int k = 0; k < 3; k++) { Pn[k] = P[k] + (F[k] - cdamp * P[k] / m) * dt; d[k] = Pn[k] * dt / m; }
            for (auto& mem : g) { RefNode& r = ref[mem.first].n[mem.second]; for (int k = 0; k < 3; k++) { r.p[k] = Pn[k]; r.x[k] += d[k]; r.f[k] = 0; } done[mem.first][mem.second] = 1; }
    #else
            for (int k = 0; k < 3; k++) d[k] = F[k] * dt / cdamp;
            for (auto& mem : g) { RefNode& r = ref[mem.first].n[mem.second]; for (int k = 0; k < 3; k++) { r.x[k] += d[k]; r.f[k] = 0; } done[mem.first][mem.second] = 1; }
    #endif
        }
#endif
        for (unsigned ci = 0; ci < cells.size(); ci++) { if (ref[ci].is_static) continue; const double m = ref[ci].node_mass;
            for (unsigned ni = 0; ni < ref[ci].n.size(); ni++) { RefNode& r = ref[ci].n[ni]; if (!r.live || done[ci][ni]) continue;
#if DYNAMIC_MODEL_INDEX == 0
                for (int k = 0; k < 3; k++) { r.p[k] += (r.f[k] - cdamp * r.p[k] / m) * dt; r.x[k] += r.p[k] * dt / m; r.f[k] = 0; }
#else
                for (int k = 0; k < 3; k++) { r.x[k] += r.f[k] * dt / cdamp; r.f[k] = 0; }
#endif
            } }
        ref_time += dt;
        // ---- the real update
        std::vector<std::vector<vec3>> before(cells.size()); for (unsigned ci = 0; ci < cells.size(); ci++) for (node& n : cells[ci]->node_lst_) before[ci].push_back(n.pos_);
        integ.update_nodes_positions(cells); if (steps_done) (*steps_done)++;
        for (unsigned ci = 0; ci < cells.size() && !any_motion; ci++) for (unsigned ni = 0; ni < cells[ci]->node_lst_.size(); ni++) if (cells[ci]->node_lst_[ni].is_used_ && (cells[ci]->node_lst_[ni].pos_ - before[ci][ni]).norm() > 0) { any_motion = true; break; }
        if (integ.get_simulation_time() != ref_time) { snprintf(buf, sizeof buf, "time-did-not-advance-by-one-time-step: after %d steps %.17g expected %.17g", step + 1, integ.get_simulation_time(), ref_time); err = buf; break; }
        for (unsigned ci = 0; ci < cells.size() && err.empty(); ci++) { cell& c = *cells[ci]; double scale_x = 1.0, scale_p = 0; for (auto& r : ref[ci].n) if (r.live) for (int k = 0; k < 3; k++) { scale_x = std::max(scale_x, std::fabs(r.x[k])); scale_p = std::max(scale_p, std::fabs(r.p[k])); }
            for (unsigned ni = 0; ni < c.node_lst_.size() && err.empty(); ni++) { node& n = c.node_lst_[ni]; RefNode& r = ref[ci].n[ni]; if (!r.live) continue; double x[3] = {n.pos_.dx(), n.pos_.dy(), n.pos_.dz()};
                if (ref[ci].is_static) { if (x[0] != before[ci][ni].dx() || x[1] != before[ci][ni].dy() || x[2] != before[ci][ni].dz()) { snprintf(buf, sizeof buf, "node-of-static-cell-moved: cell %u node %u", ci, ni); err = buf; } continue; }
                for (int k = 0; k < 3; k++) if (std::fabs(x[k] - r.x[k]) > 1e-12 * scale_x) { snprintf(buf, sizeof buf, "position-differs-from-integration-law: step %d cell %u node %u axis %d: %.17g expected %.17g%s", step + 1, ci, ni, k, x[k], r.x[k], done[ci][ni] ? " (coupled node)" : ""); err = buf; break; }
#if DYNAMIC_MODEL_INDEX == 0
                if (err.empty() && !done[ci][ni]) { double p[3] = {n.momentum_.dx(), n.momentum_.dy(), n.momentum_.dz()}; for (int k = 0; k < 3; k++) if (std::fabs(p[k] - r.p[k]) > 1e-12 * (scale_p + 1e-300)) { snprintf(buf, sizeof buf, "momentum-differs-from-integration-law: step %d cell %u node %u axis %d: %.17g expected %.17g%s", step + 1, ci, ni, k, p[k], r.p[k], done[ci][ni] ? " (coupled node)" : ""); err = buf; break; } }
#endif
                if (err.empty() && (n.force_.dx() != 0 || n.force_.dy() != 0 || n.force_.dz() != 0)) { snprintf(buf, sizeof buf, "force-accumulator-not-reset: step %d cell %u node %u", step + 1, ci, ni); err = buf; } } }
#if DYNAMIC_MODEL_INDEX == 0
        // coupled groups: the total momentum of the group follows the law applied to the averaged node (individual shares are not prescribed)
        for (auto& g : groups) { if (!err.empty()) break; double tot[3] = {0, 0, 0}, exp[3] = {0, 0, 0}, sc_ = 0; for (auto& mem : g) { const vec3& m = cells[mem.first]->node_lst_[mem.second].momentum_; tot[0] += m.dx(); tot[1] += m.dy(); tot[2] += m.dz(); for (int k = 0; k < 3; k++) { exp[k] += ref[mem.first].n[mem.second].p[k]; sc_ = std::max(sc_, std::fabs(ref[mem.first].n[mem.second].p[k])); } sc_ = std::max({sc_, std::fabs(m.dx()), std::fabs(m.dy()), std::fabs(m.dz())});   /* model 2 keeps individual momenta: the total is a sum of terms that may be much larger than it */ }
            for (int k = 0; k < 3; k++) if (std::fabs(tot[k] - exp[k]) > 1e-12 * (sc_ * g.size() + 1e-300)) { snprintf(buf, sizeof buf, "total-momentum-of-coupled-group-differs-from-law: step %d axis %d: %.17g expected %.17g", step + 1, k, tot[k], exp[k]); err = buf; break; } }
#endif
        // coupled groups: identical displacement
        for (auto& g : groups) { if (!err.empty()) break; vec3 d0 = cells[g[0].first]->node_lst_[g[0].second].pos_ - before[g[0].first][g[0].second]; for (auto& mem : g) { vec3 d = cells[mem.first]->node_lst_[mem.second].pos_ - before[mem.first][mem.second]; if ((d - d0).norm() > 1e-12 * (1 + d0.norm())) { snprintf(buf, sizeof buf, "coupled-nodes-received-different-displacements: step %d", step + 1); err = buf; } } }
        // the reference continues from the state the real code produced (each step is judged on its own: a stiff parameter set, |1 - c*dt/m| >> 1, amplifies rounding differences exponentially over a trajectory)
        if (err.empty()) for (unsigned ci = 0; ci < cells.size(); ci++) for (unsigned ni = 0; ni < ref[ci].n.size(); ni++) { RefNode& r = ref[ci].n[ni]; if (!r.live) continue; const node& n = cells[ci]->node_lst_[ni]; r.x[0] = n.pos_.dx(); r.x[1] = n.pos_.dy(); r.x[2] = n.pos_.dz();
#if DYNAMIC_MODEL_INDEX == 0
            r.p[0] = n.momentum_.dx(); r.p[1] = n.momentum_.dy(); r.p[2] = n.momentum_.dz();
#endif
        }
    }
    for (auto& c : cells) c->clear_data(); if (any_motion && steps_done) g_cases_with_motion++;
    return err;
}

static void explore(Result& R) {
    long cases = 0, steps = 0, free_slots = 0; const bool th = R.args.thorough(); const int NV = th ? 3 : 2, NSTEP = th ? 6 : 3;
    const int NPAT = 4;
    for (int pop = 0; pop < 6; pop++) for (int fp = 0; fp < NPAT; fp++) for (int pp = 0; pp < (DYNAMIC_MODEL_INDEX == 0 ? NPAT : 1); pp++) for (int cp = 0; cp < 5; cp++) for (int a = 0; a < NV; a++) for (int b = 0; b < NV; b++) for (int d = 0; d < NV; d++) for (int n = 1; n <= NSTEP; n++) for (int ids = 0; ids < 5; ids++) for (int sl = 0; sl < 2; sl++) {
        if (CONTACT_MODEL_INDEX == 0 && cp != 0) continue; if ((ids == 1 || ids == 2 || ids == 4) && fp != 3) continue;   /* the two intermediate id assignments only with the position-dependent force pattern */ if ((pop == 0 || pop == 5) && cp != 0) continue; if (pop == 5 && (ids != 0 || sl != 0)) continue; if (cp == 4 && !(CONTACT_MODEL_INDEX == 2 && pop == 4)) continue;
        Case c{pop, fp, pp, cp, a, b, d, n, ids, sl}; std::string e = run_case(c, &steps, &free_slots); if (e == "skip") continue; cases++;
        if (!e.empty()) R.violation(clause_of(e) + "|" + (cp ? "coupled" : "uncoupled"), case_json(c) + ": " + e, "case=" + case_text(c) + "\n");
        if (cases % 1500 == 1) R.sample(case_json(c)); }
    R["evaluations"] = steps; R["transitions"] = steps; R["states"] = cases; R["distinct_nontrivial"] = g_cases_with_motion; R["traces_validated_against_impl"] = cases;
    R["cells_integrated_with_free_node_slots"] = free_slots; if (!free_slots && R.violations.empty()) R.internal_error = "no cell ever carried a free node slot (vacuous)";
    R.tables["build"]["contact_model_index"] = CONTACT_MODEL_INDEX; R.tables["build"]["dynamic_model_index"] = DYNAMIC_MODEL_INDEX;
    R.strings["rule"] = "distinct_nontrivial = cases (distinct tuples by construction) in which at least one node actually moved; a case = (population, force pattern, momentum pattern, mutual coupling layout, dt, damping, density, number of steps, persistent-id assignment, compact node lists / node lists with a free slot left by a real edge collapse); the real update_nodes_positions is run step by step next to an array-based implementation of the statement's law (per-node mass = density*V/live nodes; coupled group: average momentum, force and mass, common displacement); positions/momenta to 1e-12, force accumulators exactly zero, static nodes bit-identical, time = floating-point sum of the steps; repeated in each of the 3x2 (contact model, dynamic model) builds";
    R.assumptions = {"only mutual couplings between non-static (epithelial) cells, as the contact models create them", "tolerance 1e-12 relative to the largest coordinate / momentum of the cell"};
}
static int replay(const Replay& rp, Result& R) { Case c; std::istringstream i(rp.get("case")); i >> c.pop >> c.fpat >> c.ppat >> c.coupling >> c.dti >> c.dampi >> c.densi >> c.steps; if (!(i >> c.ids >> c.slots)) { c.ids = 0; c.slots = 0; } std::string e1 = run_case(c), e2 = run_case(c); if (e1 != e2) { printf("replay diverged\n"); return 0; } printf("%s\n%s\n", case_json(c).c_str(), e1.c_str()); if (!e1.empty()) { R.violation(clause_of(e1), e1, ""); return 1; } return 0; }
int main(int argc, char** argv) { return run_main(argc, argv, "C03", explore, replay); }
