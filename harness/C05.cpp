// C05 — point-to-triangle kernel: exhaustive lattice of triangles x query points x rigid motions against an exact
// rational reference (DESIGN.md section 3, C05).
#include "sc3d.hpp"
#include "contact_model_abstract.hpp"

using namespace vf;
typedef long long i64;

struct Frac { i64 n, d; };                         // n/d, d > 0
static bool lessf(const Frac& a, const Frac& b) { return (__int128)a.n * b.d < (__int128)b.n * a.d; }
static bool eqf(const Frac& a, const Frac& b) { return (__int128)a.n * b.d == (__int128)b.n * a.d; }

struct I3 { i64 x, y, z; };
static I3 sub(I3 a, I3 b) { return {a.x - b.x, a.y - b.y, a.z - b.z}; }
static i64 dot(I3 a, I3 b) { return a.x * b.x + a.y * b.y + a.z * b.z; }
static I3 cross(I3 a, I3 b) { return {a.y * b.z - a.z * b.y, a.z * b.x - a.x * b.z, a.x * b.y - a.y * b.x}; }

// exact squared distance from p to triangle abc (integer coordinates) and the set of closest features
// feature bits: 0..2 vertices a,b,c ; 3..5 edges ab, ac, bc ; 6 interior
static Frac exact_dist2(I3 p, I3 a, I3 b, I3 c, int& features, bool& on_boundary) {
    Frac best{(i64)1 << 60, 1}; features = 0; on_boundary = false;
    auto consider = [&](Frac f, int bit) { if (lessf(f, best)) { best = f; features = 1 << bit; } else if (eqf(f, best)) features |= 1 << bit; };
    I3 v[3] = {a, b, c};
    for (int i = 0; i < 3; i++) { I3 d = sub(p, v[i]); consider({dot(d, d), 1}, i); }
    int e[3][2] = {{0, 1}, {0, 2}, {1, 2}};
    for (int i = 0; i < 3; i++) { I3 A = v[e[i][0]], B = v[e[i][1]]; I3 ab = sub(B, A), ap = sub(p, A); i64 t = dot(ap, ab), L = dot(ab, ab);
        if (t == 0 || t == L) on_boundary = true;                                 // p projects exactly onto an end point of this edge
        if (t > 0 && t < L) consider({dot(ap, ap) * L - t * t, L}, 3 + i); }     // strictly inside the open segment
    I3 ab = sub(b, a), ac = sub(c, a), ap = sub(p, a); I3 n = cross(ab, ac); i64 nn = dot(n, n);
    i64 d00 = dot(ab, ab), d01 = dot(ab, ac), d11 = dot(ac, ac), d20 = dot(ap, ab), d21 = dot(ap, ac); i64 den = d00 * d11 - d01 * d01;
    i64 vn = d11 * d20 - d01 * d21, wn = d00 * d21 - d01 * d20;
    if (vn == 0 || wn == 0 || vn + wn == den) on_boundary = true;               // p projects exactly onto a line carrying an edge
    if (den > 0 && vn > 0 && wn > 0 && vn + wn < den) { i64 h = dot(ap, n); consider({h * h, nn}, 6); }
    return best;
}
static const char* region_name(int features) {
    switch (features) { case 1: return "vertex_a"; case 2: return "vertex_b"; case 4: return "vertex_c"; case 8: return "edge_ab"; case 16: return "edge_ac"; case 32: return "edge_bc"; case 64: return "interior"; default: return "impossible"; }
}


// independent reference for the closest POINT (the squared distance is insensitive to first order to an error in the point): the textbook region walk in long double on the integer
// lattice coordinates, where every product and sum is exact (|values| < 2^20) and only the final quotients round (2^-64).  The closest point of a non-degenerate triangle is unique.
static void closest_point_ld(const I3& P, const I3& A, const I3& B, const I3& C, long double q[3]) {
    auto D = [](const I3& u, const I3& v) { return (long double)u.x * v.x + (long double)u.y * v.y + (long double)u.z * v.z; };
    auto set = [&](long double wa, long double wb, long double wc) { q[0] = wa * A.x + wb * B.x + wc * C.x; q[1] = wa * A.y + wb * B.y + wc * C.y; q[2] = wa * A.z + wb * B.z + wc * C.z; };
    I3 ab = sub(B, A), ac = sub(C, A), ap = sub(P, A); long double d1 = D(ab, ap), d2 = D(ac, ap); if (d1 <= 0 && d2 <= 0) return set(1, 0, 0);
    I3 bp = sub(P, B); long double d3 = D(ab, bp), d4 = D(ac, bp); if (d3 >= 0 && d4 <= d3) return set(0, 1, 0);
    long double vc = d1 * d4 - d3 * d2; if (vc <= 0 && d1 >= 0 && d3 <= 0) { long double v = d1 / (d1 - d3); return set(1 - v, v, 0); }
    I3 cp = sub(P, C); long double d5 = D(ab, cp), d6 = D(ac, cp); if (d6 >= 0 && d5 <= d6) return set(0, 0, 1);
    long double vb = d5 * d2 - d1 * d6; if (vb <= 0 && d2 >= 0 && d6 <= 0) { long double w = d2 / (d2 - d6); return set(1 - w, 0, w); }
    long double va = d3 * d6 - d5 * d4; if (va <= 0 && (d4 - d3) >= 0 && (d5 - d6) >= 0) { long double w = (d4 - d3) / ((d4 - d3) + (d5 - d6)); return set(0, 1 - w, w); }
    long double den = va + vb + vc; return set(va / den, vb / den, vc / den); }

struct Motion { std::array<double, 9> R; std::array<double, 3> t; bool exact; std::string name; double s = 1;   /* uniform scaling applied before the rotation: a factor that is not a power of two takes the dot products of the kernel off the values single precision can hold */ };

static vec3 apply(const Motion& m, double x, double y, double z) {
    x *= m.s; y *= m.s; z *= m.s; return vec3(m.R[0] * x + m.R[1] * y + m.R[2] * z + m.t[0], m.R[3] * x + m.R[4] * y + m.R[5] * z + m.t[1], m.R[6] * x + m.R[7] * y + m.R[8] * z + m.t[2]);
}

// checks one evaluation; returns "" or the violated clause
static std::string check(const vec3& p, const vec3& a, const vec3& b, const vec3& c, double exact, double scale2, double* sq_out = nullptr, const long double* q_expected = nullptr, double q_tol = 0) {
    auto [sq, bary] = contact_model_abstract::compute_node_triangle_distance(p, a, b, c);
    if (sq_out) *sq_out = sq;
    const double u = bary.dx(), v = bary.dy(), w = bary.dz();
    char buf[256];
    if (!std::isfinite(sq) || !std::isfinite(u) || !std::isfinite(v) || !std::isfinite(w)) return "non-finite-result";
    if (u < -1e-12 || v < -1e-12 || w < -1e-12) { snprintf(buf, sizeof buf, "negative-barycentric-coordinate: (%g,%g,%g)", u, v, w); return buf; }
    if (std::fabs(u + v + w - 1.0) > 1e-12) { snprintf(buf, sizeof buf, "barycentric-coordinates-do-not-sum-to-one: %.17g", u + v + w); return buf; }
    // closest point designated by the barycentric coordinates, computed about a in long double
    long double qx = (long double)v * ((long double)b.dx() - a.dx()) + (long double)w * ((long double)c.dx() - a.dx());
    long double qy = (long double)v * ((long double)b.dy() - a.dy()) + (long double)w * ((long double)c.dy() - a.dy());
    long double qz = (long double)v * ((long double)b.dz() - a.dz()) + (long double)w * ((long double)c.dz() - a.dz());
    long double dx = ((long double)p.dx() - a.dx()) - qx, dy = ((long double)p.dy() - a.dy()) - qy, dz = ((long double)p.dz() - a.dz()) - qz;
    double dq = (double)(dx * dx + dy * dy + dz * dz);
    const double tol = 1e-9 * (scale2 + exact);
    if (std::fabs(dq - exact) > tol) { snprintf(buf, sizeof buf, "designated-point-is-not-the-closest-point: |bary point - p|^2=%.12g exact minimum=%.12g", dq, exact); return buf; }
    if (std::fabs(sq - exact) > tol) { snprintf(buf, sizeof buf, "returned-squared-distance-wrong: returned %.12g exact %.12g", sq, exact); return buf; }
    if (sq < 0) { snprintf(buf, sizeof buf, "returned-squared-distance-wrong: returned %.12g is negative (exact %.12g)", sq, exact); return buf; }
    if (q_expected) { long double ex = (qx + a.dx()) - q_expected[0], ey = (qy + a.dy()) - q_expected[1], ez = (qz + a.dz()) - q_expected[2]; double e = (double)sqrtl(ex * ex + ey * ey + ez * ez);
        if (e > q_tol) { snprintf(buf, sizeof buf, "designated-point-is-not-the-closest-point: it lies %.3g away from the unique closest point (tolerance %.3g), barycentric coordinates (%.17g,%.17g,%.17g)", e, q_tol, u, v, w); return buf; } }
    return "";
}

static std::string v3hex(const vec3& v) { return dhex(v.dx()) + " " + dhex(v.dy()) + " " + dhex(v.dz()); }
static vec3 v3parse(const std::string& s) { std::istringstream i(s); std::string a, b, c; i >> a >> b >> c; return vec3(strtod(a.c_str(), 0), strtod(b.c_str(), 0), strtod(c.c_str(), 0)); }

static void explore(Result& R) {
    const bool th = R.args.thorough();
    // motions
    std::vector<Motion> motions;
    auto rots = sc::cube_rotations();
    std::vector<std::array<double, 3>> trans = {{0, 0, 0}, {0.25, -8, 1024}, {-1024.5, 1024, 2048.25}};
    if (th) { trans.push_back({5, 5, 5}); trans.push_back({-3, 0.5, 65536}); }
    std::vector<int> rot_ids = th ? std::vector<int>{0, 5, 9, 14, 17, 22} : std::vector<int>{0, 9};
    for (int ri : rot_ids) for (size_t ti = 0; ti < trans.size(); ti++) motions.push_back({rots[ri], trans[ti], true, "cube_rot" + std::to_string(ri) + "+t" + std::to_string(ti)});
    for (size_t ti = 0; ti < (th ? trans.size() : 2); ti++) {
        motions.push_back({sc::rot_z_345(), trans[ti], false, "rot_z_345+t" + std::to_string(ti)});
        motions.push_back({sc::matmul(sc::rot_x_51213(), sc::rot_z_345()), trans[ti], false, "rot_x_51213*rot_z_345+t" + std::to_string(ti)});
    }
    // scaled copies (the property holds for every triangle: the scaled lattice is as good a family as the lattice, and its dot products are not small dyadic numbers)
    { std::vector<std::pair<double, int>> sc_menu = {{0.3, 0}, {1.7, 1}, {1.1e-6, 0} /* micrometre meshes in metres: products of four lengths are 1e-24 */, {1.1e-3, 1} /* a millimetre mesh a kilometre from the origin: differences of coordinates are 1e-6 of the coordinates */}; if (th) { sc_menu.push_back({733.1, 2}); sc_menu.push_back({1.0 / 3.0, 1}); sc_menu.push_back({2.3e-9, 0}); }
      for (auto& sm : sc_menu) { Motion a{rots[0], trans[sm.second], false, "scale" + std::to_string(sm.first) + "+t" + std::to_string(sm.second)}; a.s = sm.first; motions.push_back(a); Motion b{sc::rot_z_345(), trans[sm.second], false, "scale" + std::to_string(sm.first) + "*rot_z_345+t" + std::to_string(sm.second)}; b.s = sm.first; motions.push_back(b); } }
    // vertex orders
    std::vector<std::array<int, 3>> orders = {{0, 1, 2}};
    if (th) orders = {{0, 1, 2}, {1, 2, 0}, {2, 0, 1}, {0, 2, 1}, {2, 1, 0}, {1, 0, 2}};

    // lattice of triangle vertices {0,1,2}^3 (stored x2 so that half-integer query points are integers too)
    std::vector<I3> verts; for (int x = 0; x < 3; x++) for (int y = 0; y < 3; y++) for (int z = 0; z < 3; z++) verts.push_back({2 * x, 2 * y, 2 * z});
    std::vector<I3> pts; for (int x = -2; x <= 6; x++) for (int y = -2; y <= 6; y++) for (int z = -2; z <= 6; z++) pts.push_back({x, y, z});

    long evals = 0, configs = 0, tris = 0; std::map<std::string, long>& reg = R.tables["configurations_per_voronoi_region"];
    double worst = 0;
    for (size_t i = 0; i < verts.size() && !R.out_of_time(0.9); i++) for (size_t j = i + 1; j < verts.size(); j++) for (size_t k = j + 1; k < verts.size(); k++) {
        I3 A = verts[i], B = verts[j], C = verts[k];
        I3 n = cross(sub(B, A), sub(C, A)); if (n.x == 0 && n.y == 0 && n.z == 0) continue;   // collinear: outside the statement
        tris++;
        for (const I3& P : pts) {
            int feat; bool onb; Frac f = exact_dist2(P, A, B, C, feat, onb); configs++;
            reg[region_name(feat)]++; if (onb) reg["of_which_exactly_on_a_region_boundary"]++;
            const double exact = (double)f.n / (double)f.d / 4.0;   // coordinates were doubled
            I3 T[3] = {A, B, C}; long double ql[3]; closest_point_ld(P, A, B, C, ql);
            for (const auto& ord : orders) for (const Motion& m : motions) {
                vec3 a = apply(m, T[ord[0]].x / 2.0, T[ord[0]].y / 2.0, T[ord[0]].z / 2.0), b = apply(m, T[ord[1]].x / 2.0, T[ord[1]].y / 2.0, T[ord[1]].z / 2.0),
                     c = apply(m, T[ord[2]].x / 2.0, T[ord[2]].y / 2.0, T[ord[2]].z / 2.0), p = apply(m, P.x / 2.0, P.y / 2.0, P.z / 2.0);
                long double qm[3]; for (int r = 0; r < 3; r++) qm[r] = (long double)m.R[3*r] * (m.s * (double)(ql[0] / 2)) + (long double)m.R[3*r+1] * (m.s * (double)(ql[1] / 2)) + (long double)m.R[3*r+2] * (m.s * (double)(ql[2] / 2)) + m.t[r];
                const double tmax = std::max({std::fabs(m.t[0]), std::fabs(m.t[1]), std::fabs(m.t[2])});
                double sq; std::string err = check(p, a, b, c, exact * m.s * m.s, 4.0 * m.s * m.s, &sq, qm, 2e-11 * m.s + 64 * 2.3e-16 * tmax); evals++;
                worst = std::max(worst, std::fabs(sq - exact * m.s * m.s) / (m.s * m.s));
                if (!err.empty()) {
                    std::string key = sc::clause_of(err) + "|region=" + region_name(feat) + "|" + (m.exact ? (m.t[0] == 0 && m.t[1] == 0 && m.t[2] == 0 ? "at-origin" : "translated") : "rotated");
                    R.violation(key, err + " [motion " + m.name + "]", "p=" + v3hex(p) + "\na=" + v3hex(a) + "\nb=" + v3hex(b) + "\nc=" + v3hex(c) + "\nexact=" + dhex(exact * m.s * m.s) + "\nscale2=" + dhex(4.0 * m.s * m.s) + "\nq=" + v3hex(vec3((double)qm[0], (double)qm[1], (double)qm[2])) + "\nqtol=" + dhex(2e-11 * m.s + 64 * 2.3e-16 * tmax + 4 * 2.3e-16 * (tmax + 4 * m.s)) + "\n");
                }
            }
            // a point that projects strictly inside the triangle and lies in its plane, lifted by a tiny height h along the normal: the squared distance is h^2 (a formula that subtracts
            // two numbers of the size of the triangle cannot deliver it)
            if (f.n == 0 && feat == 64 && !onb) for (double h : {1e-6, 1e-9}) for (const Motion& m : motions) { if (!m.exact || m.s != 1) continue; const double nl = std::sqrt((double)n.x * n.x + (double)n.y * n.y + (double)n.z * n.z);
                vec3 a = apply(m, A.x / 2.0, A.y / 2.0, A.z / 2.0), b = apply(m, B.x / 2.0, B.y / 2.0, B.z / 2.0), c = apply(m, C.x / 2.0, C.y / 2.0, C.z / 2.0), p0 = apply(m, P.x / 2.0, P.y / 2.0, P.z / 2.0);
                vec3 nn = (b - a).cross(c - a); nn = nn / nn.norm(); vec3 p = p0 + nn * h; (void)nl; auto [sq, bary] = contact_model_abstract::compute_node_triangle_distance(p, a, b, c); evals++; R["evaluations_of_points_lifted_off_the_plane"]++;
                const double tmax = std::max({std::fabs(m.t[0]), std::fabs(m.t[1]), std::fabs(m.t[2])}); const double want = h * h, tol2 = 1e-5 * want + 2 * h * 8 * 2.3e-16 * (tmax + 4);   /* the lifted point itself is rounded to the grid of its coordinates */
                if (!(sq >= 0) || std::fabs(sq - want) > tol2) { char b2[300]; snprintf(b2, sizeof b2, "returned-squared-distance-wrong: point %.3g above the interior of the triangle, returned %.12g expected %.12g", h, sq, want); R.violation(std::string("returned-squared-distance-wrong|just-above-the-plane|") + (tmax == 0 ? "at-origin" : "translated"), std::string(b2) + " [motion " + m.name + "]", "p=" + v3hex(p) + "\na=" + v3hex(a) + "\nb=" + v3hex(b) + "\nc=" + v3hex(c) + "\nexact=" + dhex(want) + "\nscale2=" + dhex(want * 1e-5 / 1e-9) + "\n"); } }
            if (configs % 500000 == 1) R.sample("{\"triangle_x2\":[[" + std::to_string(A.x) + "," + std::to_string(A.y) + "," + std::to_string(A.z) + "],[" + std::to_string(B.x) + "," + std::to_string(B.y) + "," + std::to_string(B.z) + "],[" + std::to_string(C.x) + "," + std::to_string(C.y) + "," + std::to_string(C.z) + "]],\"point_x2\":[" + std::to_string(P.x) + "," + std::to_string(P.y) + "," + std::to_string(P.z) + "],\"exact_d2\":" + jnum(exact) + ",\"region\":\"" + region_name(feat) + "\"}");
        }
    }
    if (R.out_of_time(0.9)) R.cap("deadline reached before all lattice triangles were enumerated");
    R["evaluations"] = evals; R["transitions"] = evals; R["states"] = configs; R["distinct_nontrivial"] = configs; R["traces_validated_against_impl"] = evals;
    R["triangles"] = tris; R["motions"] = motions.size(); R["vertex_orders"] = orders.size();
    R.reals["worst_abs_error_of_squared_distance"] = worst;
    long empty = 0; for (const char* r : {"vertex_a", "vertex_b", "vertex_c", "edge_ab", "edge_ac", "edge_bc", "interior", "of_which_exactly_on_a_region_boundary"}) if (!reg[r]) empty++;
    if (empty) R.internal_error = "a Voronoi region was never exercised (vacuous enumeration)";
    R.strings["rule"] = "all non-collinear triangles with vertices in {0,1,2}^3 x all query points of the half-integer lattice {-1,...,3}^3 (a configuration = one (triangle, point) pair, counted as distinct_nontrivial/states; classified by the exact set of closest features), each evaluated under every listed rigid motion and vertex order (evaluations/transitions); reference = exact rational minimum over the 7 features";
    R.assumptions = {"reference distance is computed exactly on the untransformed integer lattice; rigid motions preserve it (cube rotations and dyadic translations map the lattice exactly, the two Pythagorean rotations round to 1 ulp)",
                     "tolerance 1e-9*(4+d^2) absolute on squared distances, 1e-12 on barycentric sign/sum; the designated point must lie within 2e-11 + 64 eps |t| of the unique closest point (independent long-double reference on the integer lattice, moved with the configuration)", "collinear (degenerate) triangles are outside the statement and skipped"};
}

static int replay(const Replay& rp, Result& R) {
    vec3 p = v3parse(rp.get("p")), a = v3parse(rp.get("a")), b = v3parse(rp.get("b")), c = v3parse(rp.get("c")); double exact = rp.getd("exact"); const double scale2 = rp.get("scale2").empty() ? 4.0 : rp.getd("scale2");
    long double q[3]; bool have_q = !rp.get("q").empty(); double qtol = 0; if (have_q) { vec3 qv = v3parse(rp.get("q")); q[0] = qv.dx(); q[1] = qv.dy(); q[2] = qv.dz(); qtol = rp.getd("qtol"); }   /* the expected point is stored rounded to double: the stored tolerance includes that rounding */
    std::string e1 = check(p, a, b, c, exact, scale2, nullptr, have_q ? q : nullptr, qtol), e2 = check(p, a, b, c, exact, scale2, nullptr, have_q ? q : nullptr, qtol);
    if (e1 != e2) { printf("replay diverged\n"); return 0; }
    auto [sq, bary] = contact_model_abstract::compute_node_triangle_distance(p, a, b, c);
    printf("returned squared distance %.17g barycentric (%.17g, %.17g, %.17g); exact %.17g\n", sq, bary.dx(), bary.dy(), bary.dz(), exact);
    if (!e1.empty()) { R.violation(sc::clause_of(e1), e1, ""); return 1; }
    return 0;
}

int main(int argc, char** argv) { return run_main(argc, argv, "C05", explore, replay); }
