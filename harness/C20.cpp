// C20 — spatial grids: every in-box point maps to an existing voxel, objects are retrievable, neighbourhood queries
// miss nothing within one voxel size, full-content query returns every stored object once.
// Exhaustive lattice of boxes x voxel sizes x coordinate magnitudes x boundary lattice points, brute-force reference.
#include "common.hpp"
#include "vec3.hpp"
#include "uspg_3d.hpp"
#include "uspg_4d.hpp"
#include <array>
#include <algorithm>

using namespace vf;

struct Box { double mn[3]; double ext[3]; double voxel; };   // extents in voxels

struct Case { Box b; int grid_kind; int refill = 0; /* 1: the grid object has already been filled for another box and is re-dimensioned for this one */ };                        // 3 = uspg_3d, 4 = uspg_4d

static std::string box_text(const Box& b) {
    return dhex(b.mn[0]) + " " + dhex(b.mn[1]) + " " + dhex(b.mn[2]) + " " + dhex(b.ext[0]) + " " + dhex(b.ext[1]) + " " + dhex(b.ext[2]) + " " + dhex(b.voxel);
}
static Box box_parse(const std::string& s) { std::istringstream i(s); std::string t; Box b; double* f[7] = {&b.mn[0], &b.mn[1], &b.mn[2], &b.ext[0], &b.ext[1], &b.ext[2], &b.voxel}; for (auto p : f) { i >> t; *p = strtod(t.c_str(), 0); } return b; }
static std::string box_json(const Box& b) { return "{\"min\":[" + jnum(b.mn[0]) + "," + jnum(b.mn[1]) + "," + jnum(b.mn[2]) + "],\"extent_in_voxels\":[" + jnum(b.ext[0]) + "," + jnum(b.ext[1]) + "," + jnum(b.ext[2]) + "],\"voxel\":" + jnum(b.voxel) + "}"; }

struct Stats { long points = 0, nb_queries = 0, boundary_points = 0, max_corner_points = 0; };

// Runs one box on one grid class; returns "" or "<clause>: detail".
template <class GRID>
static std::string run_case(const Box& b, bool is3d, Stats& st, int refill = 0) {
    double mx[3]; for (int k = 0; k < 3; k++) mx[k] = b.mn[k] + b.ext[k] * b.voxel;
    // lattice of half-voxel spacing inside the box, the faces / edges / corners included (last coordinate = max exactly)
    std::vector<double> ax[3];
    for (int k = 0; k < 3; k++) { int n = (int)std::floor(b.ext[k] * 2 + 1e-9); for (int i = 0; i <= n; i++) { double v = b.mn[k] + i * 0.5 * b.voxel; if (v > mx[k]) v = mx[k]; ax[k].push_back(v); } if (ax[k].back() != mx[k]) ax[k].push_back(mx[k]);
        // the representable numbers just inside the two faces (where index arithmetic and face clamping meet)
        ax[k].push_back(std::nextafter(mx[k], b.mn[k])); ax[k].push_back(std::nextafter(b.mn[k], mx[k])); }
    std::vector<std::array<double, 3>> pts;
    for (double x : ax[0]) for (double y : ax[1]) for (double z : ax[2]) pts.push_back({x, y, z});
    // refill: the object lives on from an earlier use on a larger, shifted box (what a long-lived grid member does every iteration): nothing of the earlier fill may survive the re-dimensioning
    GRID g = refill == 1 ? GRID(b.mn[0] - b.voxel, b.mn[1] - 0.5 * b.voxel, b.mn[2] - 2 * b.voxel, mx[0] + 2 * b.voxel, mx[1] + b.voxel, mx[2] + 0.5 * b.voxel, b.voxel, pts.size() + 8)
           : refill == 2 ? GRID(b.mn[0] + 3 * b.voxel, b.mn[1] - 2 * b.voxel, b.mn[2] + b.voxel, mx[0] + 3 * b.voxel, mx[1] - 2 * b.voxel, mx[2] + b.voxel, b.voxel, pts.size() + 8)   /* same numbers of voxels, elsewhere in space */
           : GRID(b.mn[0], b.mn[1], b.mn[2], mx[0], mx[1], mx[2], b.voxel, pts.size());
    if (refill) { const double sx = refill == 2 ? 3 * b.voxel : 0, sy = refill == 2 ? -2 * b.voxel : 0, sz = refill == 2 ? b.voxel : 0; int k = 0; for (const auto& p : pts) { if (k % 3 == 0) g.place_object(100000 + k, p[0] + sx, p[1] + sy, p[2] + sz); k++; } if (refill == 1) g.place_object(100001, b.mn[0] - 0.5 * b.voxel, b.mn[1], b.mn[2] - b.voxel); g.update_dimensions(pts.size(), b.mn[0], b.mn[1], b.mn[2], mx[0], mx[1], mx[2]); }
    auto nb = g.get_nb_voxels();
    char buf[400];
    std::map<size_t, int> occupant;           // voxel -> last object placed (uspg_3d keeps one object per voxel by design)
    std::vector<size_t> voxel_of(pts.size());
    for (size_t i = 0; i < pts.size(); i++) {
        const auto& p = pts[i]; st.points++;
        bool on_b = false, on_max = false; for (int k = 0; k < 3; k++) { if (p[k] == b.mn[k] || p[k] == mx[k]) on_b = true; } if (p[0] == mx[0] && p[1] == mx[1] && p[2] == mx[2]) on_max = true;
        st.boundary_points += on_b; st.max_corner_points += on_max;
        auto idx = g.get_3d_voxel_index(p[0], p[1], p[2]);                    // pure computation, nothing dereferenced yet
        for (int k = 0; k < 3; k++) if (idx[k] >= nb[k]) {
            snprintf(buf, sizeof buf, "in-box-point-maps-to-nonexistent-voxel: point (%.17g,%.17g,%.17g) axis %d index %u of %u voxels%s", p[0], p[1], p[2], k, idx[k], nb[k], (p[k] == mx[k] ? " [point on the max face]" : ""));
            return buf; }
        size_t vid = g.get_voxel_index(idx[0], idx[1], idx[2]);
        if (vid >= (size_t)nb[0] * nb[1] * nb[2]) { snprintf(buf, sizeof buf, "flat-voxel-index-out-of-range: %zu", vid); return buf; }
        // the point must lie in the closed cell of the voxel it is mapped to (grid's own origin), up to 1e-9 voxel
        auto gm = g.get_min_corner();
        for (int k = 0; k < 3; k++) { double lo = gm[k] + idx[k] * b.voxel, hi = lo + b.voxel; double tol = 1e-9 * b.voxel + 4e-16 * (std::fabs(p[k]) + std::fabs(gm[k]));
            if (p[k] < lo - tol || p[k] > hi + tol) { snprintf(buf, sizeof buf, "point-not-inside-its-voxel: coordinate %.17g axis %d voxel [%.17g,%.17g]", p[k], k, lo, hi); return buf; } }
        g.place_object((int)i, p[0], p[1], p[2]);
        voxel_of[i] = vid; occupant[vid] = (int)i;
        // retrievable from the voxel it was placed in
        bool found = false;
        if constexpr (std::is_same<GRID, uspg_3d<int>>::value) { auto c = g.get_voxel_content(idx[0], idx[1], idx[2]); found = c.has_value() && c.value() == (int)i; }
        else { for (int o : g.get_voxel_content(idx[0], idx[1], idx[2])) if (o == (int)i) found = true; }
        if (!found) { snprintf(buf, sizeof buf, "object-not-retrievable-from-its-voxel: object %zu at (%.17g,%.17g,%.17g)", i, p[0], p[1], p[2]); return buf; }
    }
    // stored objects
    std::vector<int> stored; if (is3d) { for (auto& kv : occupant) stored.push_back(kv.second); } else { for (size_t i = 0; i < pts.size(); i++) stored.push_back((int)i); }
    std::sort(stored.begin(), stored.end());
    { auto content = g.get_grid_content(); std::vector<int> got(content.begin(), content.end()); std::sort(got.begin(), got.end());
      if (got != stored) { snprintf(buf, sizeof buf, "full-content-query-differs-from-stored-objects: returned %zu objects, %zu stored", got.size(), stored.size()); return buf; } }
    // neighbourhood queries from every lattice point
    const double r2 = b.voxel * b.voxel * (1 - 1e-9) * (1 - 1e-9);
    for (size_t qi = 0; qi < pts.size(); qi++) {
        const auto& q = pts[qi]; st.nb_queries++;
        auto nbh = g.get_neighborhood(q[0], q[1], q[2]); std::vector<char> in(pts.size(), 0); for (int o : nbh) if (o >= 0 && (size_t)o < pts.size()) in[o] = 1;
        for (int o : stored) { const auto& p = pts[o]; double d2 = (p[0] - q[0]) * (p[0] - q[0]) + (p[1] - q[1]) * (p[1] - q[1]) + (p[2] - q[2]) * (p[2] - q[2]);
            if (d2 <= r2 && !in[o]) { snprintf(buf, sizeof buf, "neighbourhood-query-misses-object-within-one-voxel: query (%.17g,%.17g,%.17g) object at (%.17g,%.17g,%.17g) distance %.6g voxel %.6g", q[0], q[1], q[2], p[0], p[1], p[2], std::sqrt(d2), b.voxel); return buf; } }
    }
    return "";
}

// large grids: more voxels than 16 bits number (per axis, and in the flat index); a sparse set of probes instead of the full lattice: the corners, the centre, and the points
// on either side of the voxel numbers 255/256 and 65535/65536 along the long axes
template <class GRID>
static std::string run_sparse(const double mn[3], const double ext[3], double voxel, Stats& st) {
    double mx[3]; for (int k = 0; k < 3; k++) mx[k] = mn[k] + ext[k] * voxel; char buf[400];
    std::vector<std::array<double, 3>> pts; std::vector<double> ax[3];
    for (int k = 0; k < 3; k++) { ax[k] = {mn[k], mx[k], mn[k] + 0.5 * ext[k] * voxel, std::nextafter(mx[k], mn[k])}; for (double v : {255.0, 256.0, 65535.0, 65536.0}) if (v < ext[k]) { ax[k].push_back(mn[k] + (v - 0.25) * voxel); ax[k].push_back(mn[k] + v * voxel); ax[k].push_back(mn[k] + (v + 0.25) * voxel); } }
    for (double x : ax[0]) for (double y : ax[1]) for (double z : ax[2]) pts.push_back({x, y, z});
    GRID g(mn[0], mn[1], mn[2], mx[0], mx[1], mx[2], voxel, pts.size()); auto nb = g.get_nb_voxels(); std::map<size_t, int> occupant;
    for (size_t i = 0; i < pts.size(); i++) { const auto& p = pts[i]; st.points++; auto idx = g.get_3d_voxel_index(p[0], p[1], p[2]);
        for (int k = 0; k < 3; k++) { if (idx[k] >= nb[k]) { snprintf(buf, sizeof buf, "in-box-point-maps-to-nonexistent-voxel: large grid, point (%.17g,%.17g,%.17g) axis %d index %u of %u voxels", p[0], p[1], p[2], k, idx[k], nb[k]); return buf; }
            const double lo = mn[k] + idx[k] * voxel, hi = lo + voxel, tol = 1e-9 * voxel + 4e-16 * (std::fabs(p[k]) + std::fabs(mn[k])); if (p[k] < lo - tol - 1e-9 || p[k] > hi + tol + 1e-9) { snprintf(buf, sizeof buf, "point-not-inside-its-voxel: large grid, coordinate %.17g axis %d voxel index %u [%.17g,%.17g]", p[k], k, idx[k], lo, hi); return buf; } }
        size_t vid = g.get_voxel_index(idx[0], idx[1], idx[2]); if (vid >= (size_t)nb[0] * nb[1] * nb[2]) { snprintf(buf, sizeof buf, "flat-voxel-index-out-of-range: large grid, %zu of %zu", vid, (size_t)nb[0] * nb[1] * nb[2]); return buf; }
        // the flat index must be a bijection of the three indices
        if (vid != (size_t)idx[0] + (size_t)nb[0] * ((size_t)idx[1] + (size_t)nb[1] * idx[2]) && vid != (size_t)idx[2] + (size_t)nb[2] * ((size_t)idx[1] + (size_t)nb[1] * idx[0])) { /* layout is the grid's own business: only collisions are judged, below */ }
        g.place_object((int)i, p[0], p[1], p[2]); occupant[vid] = (int)i;
        bool found = false; if constexpr (std::is_same<GRID, uspg_3d<int>>::value) { auto c = g.get_voxel_content(idx[0], idx[1], idx[2]); found = c.has_value() && c.value() == (int)i; } else { for (int o : g.get_voxel_content(idx[0], idx[1], idx[2])) if (o == (int)i) found = true; }
        if (!found) { snprintf(buf, sizeof buf, "object-not-retrievable-from-its-voxel: large grid, object %zu at (%.17g,%.17g,%.17g)", i, p[0], p[1], p[2]); return buf; } }
    // two probes in different voxels (by their own coordinates) must not share a flat index
    for (size_t i = 0; i < pts.size(); i++) for (size_t j = i + 1; j < pts.size(); j++) { auto a = g.get_3d_voxel_index(pts[i][0], pts[i][1], pts[i][2]), b = g.get_3d_voxel_index(pts[j][0], pts[j][1], pts[j][2]); if ((a[0] != b[0] || a[1] != b[1] || a[2] != b[2]) && g.get_voxel_index(a[0], a[1], a[2]) == g.get_voxel_index(b[0], b[1], b[2])) { snprintf(buf, sizeof buf, "two-voxels-share-a-flat-index: large grid, (%u,%u,%u) and (%u,%u,%u)", a[0], a[1], a[2], b[0], b[1], b[2]); return buf; } }
    std::vector<int> stored; if (std::is_same<GRID, uspg_3d<int>>::value) { for (auto& kv : occupant) stored.push_back(kv.second); } else for (size_t i = 0; i < pts.size(); i++) stored.push_back((int)i); std::sort(stored.begin(), stored.end());
    { auto content = g.get_grid_content(); std::vector<int> got(content.begin(), content.end()); std::sort(got.begin(), got.end()); if (got != stored) { snprintf(buf, sizeof buf, "full-content-query-differs-from-stored-objects: large grid, returned %zu objects, %zu stored", got.size(), stored.size()); return buf; } }
    const double r2 = voxel * voxel * (1 - 1e-9) * (1 - 1e-9);
    for (size_t qi = 0; qi < pts.size(); qi++) { const auto& q = pts[qi]; st.nb_queries++; auto nbh = g.get_neighborhood(q[0], q[1], q[2]); std::vector<char> in(pts.size(), 0); for (int o : nbh) if (o >= 0 && (size_t)o < pts.size()) in[o] = 1;
        for (int o : stored) { const auto& p = pts[o]; double d2 = (p[0] - q[0]) * (p[0] - q[0]) + (p[1] - q[1]) * (p[1] - q[1]) + (p[2] - q[2]) * (p[2] - q[2]); if (d2 <= r2 && !in[o]) { snprintf(buf, sizeof buf, "neighbourhood-query-misses-object-within-one-voxel: large grid, query (%.17g,%.17g,%.17g) object at (%.17g,%.17g,%.17g)", q[0], q[1], q[2], p[0], p[1], p[2]); return buf; } } }
    return "";
}

static std::string run_large_grid(int kind, int li, Stats& st) { static const double LG[4][7] = {{0, 0, 0, 300, 300, 1, 1.0}, {-5, 2, 1, 70000, 1, 2, 0.5}, {1, -3, 0, 2, 70000, 1, 1.0}, {0.5, 0.5, -7, 3, 2, 66000, 0.25}}; const double* L = LG[li]; double mn[3] = {L[0], L[1], L[2]}, ex[3] = {L[3], L[4], L[5]}; return kind == 3 ? run_sparse<uspg_3d<int>>(mn, ex, L[6], st) : run_sparse<uspg_4d<int>>(mn, ex, L[6], st); }
static std::string run_any(const Case& c, Stats& st) { return c.grid_kind == 3 ? run_case<uspg_3d<int>>(c.b, true, st, c.refill) : run_case<uspg_4d<int>>(c.b, false, st, c.refill); }

static void explore(Result& R) {
    const bool th = R.args.thorough();
    std::vector<std::array<double, 3>> mins = {{-3, -3, -3}, {0, 0, 0}, {2, 2, 2}, {-1, 0, 3}, {3, -2, 1}};
    if (th) { mins.push_back({-2, 1, -3}); mins.push_back({1, 1, -1}); }
    std::vector<double> mags = {1.0, 1024.0, std::ldexp(1.0, -20)};
    std::vector<double> exts = th ? std::vector<double>{1, 2, 2.5, 3, 4} : std::vector<double>{1, 2.5, 4};
    std::vector<double> voxels = {1.0, 0.5, 0.1, 0.3, 1e-6};
    Stats st; long boxes = 0, cases = 0; long exact_multiple = 0;
    for (int kind : {3, 4}) for (auto& m : mins) for (double mag : mags) for (double ex : exts) for (double ey : exts) for (double ez : exts) for (double v : voxels) for (int rf = 0; rf < 3; rf++) {
        if (rf && !th && (ex != ey)) continue;   /* quick: the re-dimensioned object on the boxes with equal x/y extents */
        if (R.out_of_time(0.9)) { R.cap("deadline"); goto done; }
        Case c; c.grid_kind = kind; c.refill = rf; for (int k = 0; k < 3; k++) c.b.mn[k] = m[k] * mag; c.b.ext[0] = ex; c.b.ext[1] = ey; c.b.ext[2] = ez; c.b.voxel = v;
        if (kind == 3) boxes++;
        cases++; if (ex == std::floor(ex) || ey == std::floor(ey) || ez == std::floor(ez)) exact_multiple++;
        std::string err = run_any(c, st);
        if (!err.empty()) {
            std::string key = clause_of(err) + "|uspg_" + std::to_string(kind) + "d" + (rf == 1 ? "|refilled" : rf == 2 ? "|refilled-same-voxel-count" : "");
            R.violation(key, err + " [box " + box_json(c.b) + "]", "grid=" + std::to_string(kind) + "\nrefill=" + std::to_string(rf) + "\nbox=" + box_text(c.b) + "\n");
        }
        if (cases % 1500 == 1) R.sample("{\"grid\":\"uspg_" + std::to_string(kind) + "d\",\"box\":" + box_json(c.b) + "}");
    }
done:
    { long large = 0; for (int kind : {3, 4}) for (int li = 0; li < 4; li++) { std::string err = run_large_grid(kind, li, st); large++; cases++;
          if (!err.empty()) R.violation(clause_of(err) + "|uspg_" + std::to_string(kind) + "d|large", err, "mode=large\ngrid=" + std::to_string(kind) + "\nindex=" + std::to_string(li) + "\n"); }
      R["large_grids"] = large; }
    R["evaluations"] = st.points + st.nb_queries; R["transitions"] = st.points + st.nb_queries; R["states"] = cases; R["distinct_nontrivial"] = cases;
    R["traces_validated_against_impl"] = cases; R["boxes"] = boxes; R["points_placed"] = st.points; R["neighbourhood_queries"] = st.nb_queries;
    R["points_on_box_boundary"] = st.boundary_points; R["points_on_max_corner"] = st.max_corner_points; R["cases_with_extent_multiple_of_voxel"] = exact_multiple;
    R.strings["rule"] = "a case = (grid class, box min corner, magnitude, extents per axis in voxels, voxel size, fresh object / object re-dimensioned after an earlier fill on another box); every lattice point of half-voxel spacing in the closed box (faces, edges, corners, max corner) plus, on every axis, the representable numbers just inside the min and max faces is indexed, placed, retrieved and used as neighbourhood query; reference = brute force over all stored points; distinct_nontrivial = cases";
    R.assumptions = {"uspg_3d keeps one object per voxel by design: 'stored' means the last object placed in each voxel", "neighbourhood inclusion required for Euclidean distance <= voxel*(1-1e-9) (one part in 1e9 of slack for the rounding of the index computation)",
                     "a point may be attributed to either voxel when it lies on a voxel boundary (tolerance 1e-9 voxel)"};
}

static int replay(const Replay& rp, Result& R) {
    if (rp.get("mode") == "large") { Stats st; std::string a = run_large_grid((int)rp.geti("grid", 4), (int)rp.geti("index", 0), st), b = run_large_grid((int)rp.geti("grid", 4), (int)rp.geti("index", 0), st); if (a != b) { printf("replay diverged\n"); return 0; } printf("%s\n", a.c_str()); if (!a.empty()) { R.violation(a.substr(0, a.find(':')), a, ""); return 1; } return 0; }
    Case c; c.grid_kind = (int)rp.geti("grid", 4); c.refill = (int)rp.geti("refill", 0); c.b = box_parse(rp.get("box")); Stats st;
    std::string e1 = run_any(c, st), e2 = run_any(c, st);
    if (e1 != e2) { printf("replay diverged\n"); return 0; }
    if (!e1.empty()) { R.violation(e1.substr(0, e1.find(':')), e1, ""); return 1; }
    return 0;
}

int main(int argc, char** argv) { return run_main(argc, argv, "C20", explore, replay); }
