// C08 — cell identities and cross-references stay valid as the population changes (engine E1 over solver histories, hook H6).
// State = a real solver; per step (5 iterations, so that every step starts on a division opportunity) every cell is assigned one of
// {nothing, divide, vanish}; ALL assignments are enumerated to a stated depth; invariants are checked at every H6 phase boundary.
#include "solver_world.hpp"
using namespace vf;

struct harness_abort : std::exception { std::string msg; harness_abort(const std::string& m) : msg(m) {} const char* what() const noexcept override { return msg.c_str(); } };

struct Tracker { std::set<unsigned> ever_seen; unsigned max_seen = 0; bool have = false; long checks = 0; long couplings_seen = 0; long phases = 0; std::map<std::pair<unsigned, unsigned>, std::array<double, 3>> partner_pos; /* where each designated partner sat at the first phase after the contact phase */ };
static Tracker* g_tr = nullptr;

static std::string check_population(solver* s, const char* phase) {
    auto& L = s->cell_lst_; char buf[300]; Tracker& T = *g_tr; T.checks++;
    std::set<unsigned> ids;
    for (size_t i = 0; i < L.size(); i++) { cell& c = *L[i];
        if (c.get_local_id() != i) { snprintf(buf, sizeof buf, "position-index-differs-from-place-in-list: cell id %u at index %zu has local id %u (phase %s)", c.get_id(), i, c.get_local_id(), phase); return buf; }
        if (!ids.insert(c.get_id()).second) { snprintf(buf, sizeof buf, "duplicate-cell-id: %u (phase %s)", c.get_id(), phase); return buf; }
        if (!T.ever_seen.count(c.get_id())) { if (T.have && c.get_id() <= T.max_seen) { snprintf(buf, sizeof buf, "cell-id-reused-or-not-fresh: new id %u but %u was already used (phase %s)", c.get_id(), T.max_seen, phase); return buf; } }
        const size_t nft = c.get_cell_type()->face_types_.size();
        for (const face& f : c.face_lst_) if (f.is_used_) { if (f.type_id_ >= nft) { snprintf(buf, sizeof buf, "face-type-index-out-of-range: cell %u face %u has type index %u but its cell type defines %zu face types (phase %s)", c.get_id(), f.local_face_id_, f.type_id_, nft, phase); return buf; }
            if (f.owner_cell_.get() != &c) { snprintf(buf, sizeof buf, "face-owner-is-not-its-cell: cell %u face %u (phase %s)", c.get_id(), f.local_face_id_, phase); return buf; } }
    }
    for (auto& c : L) { T.ever_seen.insert(c->get_id()); T.max_seen = T.have ? std::max(T.max_seen, c->get_id()) : c->get_id(); T.have = true; }
#if CONTACT_MODEL_INDEX == 1
    bool couplings_live = !strcmp(phase, "polarize") || !strcmp(phase, "forces") || !strcmp(phase, "integrate"); if (!strcmp(phase, "contact") || !strcmp(phase, "begin")) T.partner_pos.clear();
    if (couplings_live) for (size_t i = 0; i < L.size(); i++) for (const node& n : L[i]->node_lst_) if (n.is_used_ && n.coupled_node_.has_value()) { T.couplings_seen++;
        auto [ci, ni] = n.coupled_node_.value();
        if (ci >= L.size()) { snprintf(buf, sizeof buf, "coupling-designates-nonexistent-cell: node %u of cell at index %zu is coupled to cell index %u of %zu (phase %s)", n.node_id_, i, ci, L.size(), phase); return buf; }
        if (ci == i) { snprintf(buf, sizeof buf, "coupling-designates-own-cell: node %u of cell at index %zu (phase %s)", n.node_id_, i, phase); return buf; }
        if (ni >= L[ci]->node_lst_.size() || !L[ci]->node_lst_[ni].is_used_) { snprintf(buf, sizeof buf, "coupling-designates-dead-or-nonexistent-node: node %u of cell index %zu -> node %u of cell index %u (phase %s)", n.node_id_, i, ni, ci, phase); return buf; }
        // the partner must be the node the contact phase meant: both cells epithelial and within the adhesion cut-off
        if (L[ci]->get_cell_type_id() != 0 || L[i]->get_cell_type_id() != 0) { snprintf(buf, sizeof buf, "coupling-between-non-epithelial-cells: index %zu -> %u (phase %s)", i, ci, phase); return buf; }
        // ... and the node it was coupled to.  Between the contact phase and the time integration no node moves and no list is reordered, so the partner designated at the first phase after
        // the contact phase (polarize) is, at every later point of use, the node that sits where it sat then.  (A bound on the distance would demand more than the model promises: a partner
        // that is itself re-coupled to a closer node is pulled away by up to half a cut-off.)
        { const vec3& pp = L[ci]->node_lst_[ni].pos_; auto key = std::make_pair((unsigned)i, n.node_id_);
          if (!strcmp(phase, "polarize")) T.partner_pos[key] = {pp.dx(), pp.dy(), pp.dz()};
          else { auto it = T.partner_pos.find(key); if (it != T.partner_pos.end() && (it->second[0] != pp.dx() || it->second[1] != pp.dy() || it->second[2] != pp.dz())) { snprintf(buf, sizeof buf, "coupling-designates-a-node-that-is-not-the-partner: node %u of cell index %zu -> node %u of cell index %u: that slot held (%.9g,%.9g,%.9g) after the contact phase and holds (%.9g,%.9g,%.9g) now (phase %s)", n.node_id_, i, ni, ci, it->second[0], it->second[1], it->second[2], pp.dx(), pp.dy(), pp.dz(), phase); return buf; } } } }
#elif CONTACT_MODEL_INDEX == 2
    bool couplings_live = !strcmp(phase, "polarize") || !strcmp(phase, "forces") || !strcmp(phase, "integrate");
    if (couplings_live) for (size_t i = 0; i < L.size(); i++) for (const node& n : L[i]->node_lst_) if (n.is_used_) for (auto& kv : n.coupled_nodes_map_) { T.couplings_seen++; unsigned ci = kv.first, ni = kv.second.first;
        if (ci >= L.size()) { snprintf(buf, sizeof buf, "coupling-designates-nonexistent-cell: node %u of cell at index %zu is coupled to cell index %u of %zu (phase %s)", n.node_id_, i, ci, L.size(), phase); return buf; }
        if (ci == i) { snprintf(buf, sizeof buf, "coupling-designates-own-cell: node %u of cell at index %zu (phase %s)", n.node_id_, i, phase); return buf; }
        if (ni >= L[ci]->node_lst_.size() || !L[ci]->node_lst_[ni].is_used_) { snprintf(buf, sizeof buf, "coupling-designates-dead-or-nonexistent-node: node %u of cell index %zu -> node %u of cell index %u (phase %s)", n.node_id_, i, ni, ci, phase); return buf; }
        // a coupling recorded on one side must be recorded on the other: the partner must hold an entry for this cell
        const auto& back = L[ci]->node_lst_[ni].coupled_nodes_map_; if (!back.count((unsigned)i)) { snprintf(buf, sizeof buf, "coupling-not-recorded-on-the-partner: node %u of cell index %zu -> node %u of cell index %u, which holds no entry for cell index %zu (phase %s)", n.node_id_, i, ni, ci, i, phase); return buf; } }
#endif
    return "";
}

enum Ev { NOTHING = 0, DIVIDE = 1, VANISH = 2 };
typedef std::vector<std::vector<int>> History;        // per step: event per cell index
struct Setup { int ncells; int kind; int incoming = 0; /* ids the cells carry when handed to the solver constructor: sw::incoming_ids() */ };                 // kind 0: all epithelial(3 face types); 1: middle cell epithelial with 2 face types; 2: last cell ECM-like static neighbour; 3: middle cell with a single face type

static std::string hist_text(const History& h) { std::string s; for (auto& st : h) { if (!s.empty()) s += "|"; for (int e : st) s += char('0' + e); } return s; }
static History hist_parse(const std::string& s) { History h(1); for (char ch : s) { if (ch == '|') h.push_back({}); else h.back().push_back(ch - '0'); } if (s.empty()) h.clear(); return h; }
static std::string hist_json(const History& h) { std::string s = "["; for (size_t i = 0; i < h.size(); i++) { if (i) s += ","; s += "\""; for (int e : h[i]) s += (e == 0 ? "-" : e == 1 ? "D" : "V"); s += "\""; } return s + "]"; }

struct RunOut { std::string final_key; std::string err; std::vector<size_t> pop_after_step; long divisions = 0, removals = 0; bool threw = false; std::string what; };

// monitor mode (set by the C10 driver): an invariant violation does not end the history, so that the sanitizers see what the code goes on to do with the broken reference
static const bool g_monitor = getenv("VERIF_MONITOR") != nullptr;
// ... except at a recorded known finding of this property (keys handed over by the driver): there the history ends as usual, the defect is already on file
static bool stop_here(const std::string& e, int kind) { if (!g_monitor) return true; static std::set<std::string> known = [] { std::set<std::string> k; const char* v = getenv("VERIF_KNOWN_KEYS"); if (v) { std::istringstream i(v); std::string l; while (std::getline(i, l)) if (!l.empty()) k.insert(l); } return k; }(); return known.count(clause_of(e) + "|setup=" + std::to_string(kind)) > 0; }
static RunOut run_history(const Setup& su, const History& h, long* phases = nullptr) {
    RunOut out; std::vector<sw::CellSpec> cs;
    sc::Mesh ico = sc::icosphere(1);
    for (int i = 0; i < su.ncells; i++) { auto ty = sc::make_cell_type(0, (su.kind == 1 && i == 1) ? 2 : (su.kind == 3 && i == 1) ? 1 : 3); if (su.kind == 2 && i == su.ncells - 1) ty = sc::make_cell_type(1, 1); if (su.kind == 5 && i == 1) ty = sc::make_cell_type(2, 1);   /* kind 5: the middle cell is a lumen whose type defines a single face type (only epithelial faces are ever polarised) */
        ty->surface_coupling_max_curvature_ = 1e30; sc::Mesh mi = sc::translated(ico, 2.05 * i, 0, 0);
        if (su.kind == 4 && i == 0) { /* one edge of the first cell far below the minimum edge length: the refiner collapses it in the first iteration and the cell carries free node slots until its next compaction */ unsigned a = mi.tri[0], b = mi.tri[1]; for (int k = 0; k < 3; k++) mi.pos[3*a+k] = mi.pos[3*b+k] + 0.25 * (mi.pos[3*a+k] - mi.pos[3*b+k]); }
        cs.push_back({mi, ty}); }
    global_simulation_parameters p = sc::make_sim_params(sw::scratch_root() + "/c08", 0.3); p.time_step_ = 1e-3; p.sampling_period_ = su.kind == 4 ? 1e-3 /* a mesh file (and the compaction that goes with it) in every iteration */ : 1e9; p.simulation_duration_ = 1e9; p.contact_cutoff_adhesion_ = 0.1; p.contact_cutoff_repulsion_ = 0.1;
    Tracker T; g_tr = &T;
    try {
        sw::incoming_ids() = su.incoming; sw::World W(cs, p); sw::incoming_ids() = 0;
        { std::string e = check_population(W.s.get(), "after_construction"); if (!e.empty() && stop_here(e, su.kind)) throw harness_abort(e); }
        sw::phase_cb() = [&](solver* s, const char* ph) { T.phases++; std::string e = check_population(s, ph); if (!e.empty() && stop_here(e, su.kind)) throw harness_abort(e); };
        for (size_t step = 0; step < h.size() && out.err.empty(); step++) {
            auto& L = W.cells(); std::set<unsigned> expect_gone, expect_divide;
            for (size_t i = 0; i < L.size() && i < h[step].size(); i++) { cell& c = *L[i];
                if (h[step][i] == DIVIDE && c.get_cell_type_id() == 0) { c.division_volume_ = 0.9 * c.compute_volume(); expect_divide.insert(c.get_id()); }
                else c.division_volume_ = std::numeric_limits<double>::infinity();
                if (h[step][i] == VANISH && !c.is_static() /* static cells are not subject to internal forces: their volume is never re-evaluated */) { double v = c.compute_volume(); c.cell_type_ = std::make_shared<cell_type_parameters>(*c.cell_type_); c.cell_type_->min_vol_ = 0.6 * v; sw::scale_cell(c, 0.8); expect_gone.insert(c.get_id()); } }
            size_t before = L.size();
            for (int it = 0; it < 5 && !W.cells().empty() /* solver::run stops on an empty population */; it++) { W.s->run_iteration(); std::string e = check_population(W.s.get(), "after_iteration"); if (!e.empty() && stop_here(e, su.kind)) { out.err = e; break; } }
            if (!out.err.empty()) break;
            // removed ids never reappear; removed cells are exactly those below their minimum volume (C04 checks the law; here: identity)
            for (auto& c : W.cells()) if (expect_gone.count(c->get_id())) { out.err = "cell-below-minimum-volume-still-in-population: id " + std::to_string(c->get_id()); break; }
            out.pop_after_step.push_back(W.cells().size()); out.removals += expect_gone.size(); (void)before;
            for (auto& c : W.cells()) c->division_volume_ = std::numeric_limits<double>::infinity();
        }
        if (phases) *phases += T.phases;
        out.final_key = sw::canon_world(*W.s);
        out.divisions = (long)T.ever_seen.size() - su.ncells;
    } catch (harness_abort& e) { out.err = e.msg; }
    catch (std::exception& e) { out.threw = true; out.what = e.what(); }
    g_tr = nullptr;
    return out;
}

static long g_unit = 0;
static void enumerate(Result& R, const Setup& su, int depth, int max_cells_with_events) {
    // breadth-first over steps; the number of cells after each step comes from the real run of the prefix
    std::deque<History> frontier; frontier.push_back({});
    std::vector<size_t> dummy;
    while (!frontier.empty()) {
        if (R.out_of_time(0.9)) { R.cap("deadline (setup " + std::to_string(su.ncells) + "/" + std::to_string(su.kind) + ", " + std::to_string(frontier.size()) + " prefixes left)"); return; }
        History h = frontier.front(); frontier.pop_front();
        size_t n = su.ncells; if (!h.empty()) { RunOut o = run_history(su, h); if (!o.err.empty() || o.threw || o.pop_after_step.size() != h.size()) continue; n = o.pop_after_step.back(); }
        if (n == 0) { R["histories_ending_with_empty_population"]++; continue; }
        size_t k = std::min<size_t>(n, max_cells_with_events); long combos = 1; for (size_t i = 0; i < k; i++) combos *= 3;
        for (long code = 0; code < combos; code++) { if (h.empty() && !R.args.mine(g_unit++)) continue;   /* first-step assignments are dealt to the parallel shards */ std::vector<int> ev(n, NOTHING); long c = code; for (size_t i = 0; i < k; i++) { ev[i] = c % 3; c /= 3; }
            History h2 = h; h2.push_back(ev); long ph = 0; RunOut o = run_history(su, h2, &ph); R["transitions"]++; R["states"]++; R["phase_boundaries_checked"] += ph; R["divisions_executed"] += o.divisions; R["removals_executed"] += o.removals;
            R.mix(o.final_key + o.err); R.distinct_case(std::to_string(su.kind) + "/" + std::to_string(su.incoming) + "|" + o.final_key);
            if (!o.err.empty()) { R.violation(clause_of(o.err) + "|setup=" + std::to_string(su.kind), "population of " + std::to_string(su.ncells) + " cells (setup " + std::to_string(su.kind) + (su.incoming ? std::string(", cells handed to the solver with ids ") + (su.incoming == 1 ? "reversed" : "70000+3i") : std::string()) + "), history " + hist_json(h2) + ": " + o.err, "ncells=" + std::to_string(su.ncells) + "\nkind=" + std::to_string(su.kind) + "\nincoming=" + std::to_string(su.incoming) + "\nhist=" + hist_text(h2) + "\n"); continue; }
            if (o.threw) { R["histories_ended_by_exception"]++; R.tables["exceptions"][o.what.substr(0, 60)]++; continue; }
            if ((int)h2.size() < depth) frontier.push_back(h2);
            if (R["states"] % 200 == 1) R.sample("{\"cells\":" + std::to_string(su.ncells) + ",\"setup\":" + std::to_string(su.kind) + ",\"history\":" + hist_json(h2) + ",\"population_after_each_step\":" + std::to_string(o.pop_after_step.empty() ? 0 : o.pop_after_step.back()) + "}");
        }
    }
}

static void explore(Result& R) {
    const bool th = R.args.thorough();
    std::vector<Setup> setups = {{2, 0}, {3, 0}, {3, 1}, {3, 2}, {3, 3}, {2, 0, 1}, {3, 0, 1}, {3, 0, 2}, {2, 4}, {3, 4}, {3, 5}}; if (th) { setups.push_back({4, 0}); setups.push_back({3, 2, 2}); setups.push_back({3, 1, 1}); }
    for (auto& su : setups) enumerate(R, su, (th && su.ncells < 4 && su.incoming == 0 && su.kind != 4) ? 3 : 2 /* the id-assignment and sampling setups at depth 2 in both tiers */, th ? 4 : 3);   // thorough: depth 3 for 2-3 cells, depth 2 (81 + 81*81 histories) for 4 cells
    sw::cleanup_scratch();
    R["evaluations"] = R["transitions"]; R["distinct_nontrivial"] = R["states"]; /* replaced by the measured union of final-population keys in the driver */ R["traces_validated_against_impl"] = R["transitions"];
    if (R.args.nshards == 1 && (R["divisions_executed"] == 0 || R["removals_executed"] == 0)) R.internal_error = "no division or no removal was ever executed (vacuous)";
    R.strings["rule"] = "distinct_nontrivial = number of DISTINCT final populations (hashed canonical key of ids, list order, meshes and couplings) reached by the histories; a state = a history of steps; a step assigns one of {nothing, divide, vanish} to every cell and runs 5 real solver iterations; all assignments are enumerated breadth first; at every H6 phase boundary (begin, divide, face_types, refine, contact, polarize, forces, integrate, stats, remove, end) and after every iteration: local id == list index, ids unique and fresh, couplings designate live nodes of existing other epithelial cells (phases where they are used), face owner == cell, face type index < number of face types";
    R.assumptions = {"cells are 42-node icospheres 0.05 apart (adhesion cut-off 0.1) so that couplings exist", "divide = division volume set to 0.9 V at a division opportunity; vanish = mesh scaled by 0.8 with the (per cell copy of the) type's minimum volume at 0.6 V", "a history ended by a std::exception (e.g. refinement failure) is counted, not flagged"};
}
static int replay(const Replay& rp, Result& R) { Setup su{(int)rp.geti("ncells"), (int)rp.geti("kind"), (int)rp.geti("incoming")}; History h = hist_parse(rp.get("hist")); RunOut a = run_history(su, h), b = run_history(su, h); sw::cleanup_scratch();
    if (a.err != b.err) { printf("replay diverged: %s / %s\n", a.err.c_str(), b.err.c_str()); return 0; } printf("history %s: %s\n", hist_json(h).c_str(), a.err.c_str()); if (!a.err.empty()) { R.violation(clause_of(a.err), a.err, ""); return 1; } return 0; }
int main(int argc, char** argv) { return run_main(argc, argv, "C08", explore, replay); }
