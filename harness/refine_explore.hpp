#pragma once
// Engine E1 for the remeshing properties (C01, C11): explicit-state breadth-first search over histories of remeshing
// operations replayed on the real cell / local_mesh_refiner, canonical-key deduplication, oracles on every state.
//
// The including file defines PROP_C01 or PROP_C11 (which oracle set decides).
//
//   L1  operation level: alphabet = swap(e) [swap phase of a pass], split(e), merge(e) if can_be_merged(e) [split/merge phase],
//       and pass boundaries (refresh / rebase / orientation-preserving deformations before or after the refresh),
//       exactly the phase structure local_mesh_refiner::refine_mesh + solver::run_iteration impose.
//   L2  pass level: alphabet = deformations, refine_mesh(swap on), refine_mesh(swap off), rebase; the H5 hook reports every
//       operation inside a pass, the oracles also run on the intermediate meshes.
//   L3  in situ (C01 only): solver::run_iteration on a growing/shrinking cell, oracle after every iteration.
#include "sc3d.hpp"
#include "solver.hpp"
#include <deque>
#include <unordered_set>

using namespace vf;

namespace rx {

// ------------------------------------------------------------------------------------------------ snapshots
struct Snap {
    std::vector<node> nodes; std::vector<face> faces; long double vol = 0, area = 0; vec3 momentum; size_t nlive = 0;
};
static Snap snap_of(const cell& c) {
    Snap s; s.nodes = c.node_lst_; s.faces = c.face_lst_; for (auto& f : s.faces) f.owner_cell_.reset();
    sc::Geom g = sc::geom_of(c); s.vol = g.vol; s.area = g.area;
    vec3 m(0, 0, 0);
#if DYNAMIC_MODEL_INDEX == 0
    for (const node& n : c.node_lst_) if (n.is_used_) m = m + n.momentum_;
#endif
    s.momentum = m; for (const node& n : c.node_lst_) if (n.is_used_) s.nlive++;
    return s;
}

// ------------------------------------------------------------------------------------------------ operations
enum Kind { SPLIT = 0, MERGE = 1, SWAP = 2, REFRESH = 3, REBASE_REFRESH = 4, DEFORM_THEN_REFRESH = 5, REFRESH_THEN_DEFORM = 6,
            L2_DEFORM = 7, L2_REFINE_SWAP = 8, L2_REFINE_NOSWAP = 9, L2_REBASE = 10, L2_REFRESH = 11 };
struct Op { int kind; unsigned a, b; };     // a,b = edge nodes, or a = deformation id
static std::string op_text(const Op& o) { return std::to_string(o.kind) + ":" + std::to_string(o.a) + ":" + std::to_string(o.b); }
static const char* kind_name(int k) { static const char* n[] = {"split", "merge", "swap", "refresh", "rebase+refresh", "deform+refresh", "refresh+deform", "deform", "refine_mesh(swap)", "refine_mesh(noswap)", "rebase", "refresh"}; return n[k]; }
static std::string hist_text(const std::vector<Op>& h) { std::string s; for (auto& o : h) { if (!s.empty()) s += " "; s += op_text(o); } return s; }
static std::string hist_json(const std::vector<Op>& h) { std::string s = "["; for (size_t i = 0; i < h.size(); i++) { if (i) s += ","; s += "\"" + std::string(kind_name(h[i].kind)) + "(" + std::to_string(h[i].a) + "," + std::to_string(h[i].b) + ")\""; } return s + "]"; }
static std::vector<Op> hist_parse(const std::string& s) { std::vector<Op> h; std::istringstream i(s); std::string t; while (i >> t) { Op o; sscanf(t.c_str(), "%d:%u:%u", &o.kind, &o.a, &o.b); h.push_back(o); } return h; }

static void node_mean(const cell& c, double m[3]) { m[0] = m[1] = m[2] = 0; size_t n = 0; for (const node& nd : c.node_lst_) if (nd.is_used_) { m[0] += nd.pos_.dx(); m[1] += nd.pos_.dy(); m[2] += nd.pos_.dz(); n++; } for (int k = 0; k < 3; k++) m[k] /= n; }
// orientation-preserving deformations about the mean of the live nodes
static void deform(cell& c, unsigned id) {
    double m[3]; node_mean(c, m);
    unsigned first = 0, last = 0; bool seen = false; for (unsigned i = 0; i < c.node_lst_.size(); i++) if (c.node_lst_[i].is_used_) { if (!seen) { first = i; seen = true; } last = i; }
    for (unsigned i = 0; i < c.node_lst_.size(); i++) { node& n = c.node_lst_[i]; if (!n.is_used_) continue; double x = n.pos_.dx() - m[0], y = n.pos_.dy() - m[1], z = n.pos_.dz() - m[2];
        switch (id) {
            case 0: x *= 1.6; z *= 0.7; break;                       // anisotropic scale
            case 1: x += 0.5 * y; break;                              // shear
            case 2: if (i == first) { x *= 1.8; y *= 1.8; z *= 1.8; } break;   // pull one vertex out
            // L2 family
            case 10: x *= 2.5; break; case 11: y *= 2.5; break; case 12: z *= 2.5; break;
            case 13: x *= 0.3; break; case 14: y *= 0.3; break; case 15: z *= 0.3; break;
            case 16: if (i == last) { x *= 3; y *= 3; z *= 3; } break;
            case 17: if (i == first) { x *= 0.3; y *= 0.3; z *= 0.3; } break;
            case 18: x *= 2.5; y *= 2.5; z *= 2.5; break;            // uniform growth: every edge too long
            case 19: x *= 0.3; y *= 0.3; z *= 0.3; break;            // uniform shrink: every edge too short
        }
        n.pos_.reset(x + m[0], y + m[1], z + m[2]); }
}
static void refresh(cell& c) { c.update_all_face_normals_and_areas(); c.area_ = c.compute_area(); c.update_centroid(); }

// ------------------------------------------------------------------------------------------------ seeds
struct Seed { sc::Mesh mesh; std::string name; };
static sc::Mesh normalised(sc::Mesh m) { // longest edge = 1.4 so that the band [0.5, 1.5] contains every seed edge
    double L = 0; for (size_t f = 0; f < m.nf(); f++) for (int k = 0; k < 3; k++) { unsigned a = m.tri[3*f+k], b = m.tri[3*f+(k+1)%3]; double d = 0; for (int j = 0; j < 3; j++) d += (m.pos[3*a+j] - m.pos[3*b+j]) * (m.pos[3*a+j] - m.pos[3*b+j]); L = std::max(L, std::sqrt(d)); }
    for (auto& v : m.pos) v *= 1.4 / L; return m; }
static std::vector<Seed> seeds(bool thorough) {
    using namespace sc; std::vector<Seed> s;
    auto add = [&](Mesh m) { std::string n = m.name; m = normalised(m); s.push_back({m, n}); };
    add(octahedron()); add(bipyramid()); add(tetrahedron()); add(cube12()); add(dented_cube()); add(icosahedron());
    { Mesh m = octahedron(); std::vector<unsigned> p = {3, 5, 0, 2, 4, 1}; m = renumbered(m, p); m.name = "octahedron_renumbered"; add(m); }
    { Mesh m = cube12(); std::vector<unsigned> p = {7, 2, 5, 0, 3, 6, 1, 4}; m = renumbered(m, p); m.name = "cube12_renumbered"; add(m); }
    if (thorough) { Mesh m = bipyramid(); std::vector<unsigned> p = {4, 0, 3, 1, 2}; m = renumbered(m, p); m.name = "bipyramid_renumbered"; add(m); }
    return s;
}
static double L_MIN = 0.5, L_MAX = 1.5;   // the scale block of C11 moves the band together with the mesh

static cell_type_param_ptr g_type;
static cell_ptr fresh_cell(const sc::Mesh& m) {
    if (!g_type) g_type = sc::make_cell_type(0, 3);
    cell_ptr c = sc::make_cell(m, 0, g_type, true);
    // face labels = face index mod number of face types; momenta position dependent (non trivial conservation checks)
    for (unsigned i = 0; i < c->face_lst_.size(); i++) c->face_lst_[i].type_id_ = i % 3;
#if DYNAMIC_MODEL_INDEX == 0
    for (node& n : c->node_lst_) if (n.is_used_) n.momentum_ = vec3(1.0 + n.pos_.dx(), 0.5 * n.pos_.dy() - 0.25, n.pos_.dz() * n.pos_.dx());
#endif
    refresh(*c);
    return c;
}

// ------------------------------------------------------------------------------------------------ oracles
// returns "" or "<clause>: detail".  `stale` = cached normals/areas were computed before the last node displacement.
static std::string oracle_state(const cell& c, bool stale) {
#ifdef PROP_C01
    sc::OracleOpts o; o.check_cached_geometry = !stale; return sc::oracle_mesh(c, o);
#else
    (void)stale; return "";
#endif
}

// C11 per-operation oracle
static std::string oracle_op(const Snap& b, const cell& c, int kind, unsigned ea, unsigned eb, double lmin2 = -1, double lmax2 = -1) {
#ifdef PROP_C11
    char buf[400];
    if (kind > SWAP) return "";
    // did the operation do anything?  (swap may legitimately refuse)
    bool changed = b.nodes.size() != c.node_lst_.size() || b.faces.size() != c.face_lst_.size();
    if (!changed) for (size_t i = 0; i < b.faces.size() && !changed; i++) { const face &x = b.faces[i], &y = c.face_lst_[i]; if (x.is_used_ != y.is_used_ || (x.is_used_ && (x.n1_id_ != y.n1_id_ || x.n2_id_ != y.n2_id_ || x.n3_id_ != y.n3_id_))) changed = true; }
    if (!changed) for (size_t i = 0; i < b.nodes.size() && !changed; i++) if (b.nodes[i].is_used_ != c.node_lst_[i].is_used_) changed = true;
    const vec3 pa = b.nodes[ea].pos_, pb = b.nodes[eb].pos_; const vec3 mid = (pb + pa) * 0.5;
    const double len2 = (pa - pb).squared_norm();
    if (changed && kind == SPLIT && lmax2 > 0 && !(len2 > lmax2)) { snprintf(buf, sizeof buf, "pass-split-an-edge-not-longer-than-l_max: edge (%u,%u) length^2 %.17g l_max^2 %.17g", ea, eb, len2, lmax2); return buf; }
    if (changed && kind == MERGE && lmin2 > 0 && !(len2 < lmin2)) { snprintf(buf, sizeof buf, "pass-merged-an-edge-not-shorter-than-l_min: edge (%u,%u) length^2 %.17g l_min^2 %.17g", ea, eb, len2, lmin2); return buf; }
    // surviving nodes keep their position bit for bit; new nodes sit exactly at the midpoint of the operated edge
    std::vector<unsigned> created, removed;
    for (size_t i = 0; i < std::max(b.nodes.size(), c.node_lst_.size()); i++) {
        bool was = i < b.nodes.size() && b.nodes[i].is_used_, is = i < c.node_lst_.size() && c.node_lst_[i].is_used_;
        // a slot can be reused by the new node: a merge frees a,b and may put the new node into a previously free slot, never into a/b's
        if (was && is) { const vec3 &p = b.nodes[i].pos_, &q = c.node_lst_[i].pos_; if (p.dx() != q.dx() || p.dy() != q.dy() || p.dz() != q.dz()) { snprintf(buf, sizeof buf, "surviving-node-moved: node %zu by %s(%u,%u)", i, kind_name(kind), ea, eb); return buf; } }
        else if (!was && is) created.push_back((unsigned)i); else if (was && !is) removed.push_back((unsigned)i);
    }
    if (kind == SWAP && (!created.empty() || !removed.empty())) return "swap-changed-the-node-set";
    if (kind == SPLIT) { if (created.size() != 1 || !removed.empty()) { snprintf(buf, sizeof buf, "split-did-not-create-exactly-one-node: created %zu removed %zu", created.size(), removed.size()); return buf; } }
    if (kind == MERGE && changed) { if (created.size() != 1 || removed.size() != 2) { snprintf(buf, sizeof buf, "merge-did-not-replace-two-nodes-by-one: created %zu removed %zu", created.size(), removed.size()); return buf; } }
    for (unsigned i : created) { const vec3& q = c.node_lst_[i].pos_; if (q.dx() != mid.dx() || q.dy() != mid.dy() || q.dz() != mid.dz()) { snprintf(buf, sizeof buf, "new-node-not-at-edge-midpoint: node %u at (%.17g,%.17g,%.17g) midpoint (%.17g,%.17g,%.17g)", i, q.dx(), q.dy(), q.dz(), mid.dx(), mid.dy(), mid.dz()); return buf; } }
    // momentum
#if DYNAMIC_MODEL_INDEX == 0
    { vec3 m(0, 0, 0); double scale = 0; for (const node& n : c.node_lst_) if (n.is_used_) { m = m + n.momentum_; scale += n.momentum_.norm(); }
      vec3 d = m - b.momentum; if (d.norm() > 1e-12 * (scale + 1e-300)) { snprintf(buf, sizeof buf, "total-momentum-not-conserved: by %s(%u,%u): |delta| = %.3g of %.3g", kind_name(kind), ea, eb, d.norm(), scale); return buf; } }
#endif
    if (kind == SPLIT) {
        // volume and area unchanged, children carry the label of the parent they subdivide
        sc::Geom g = sc::geom_of(c);
        if (fabsl(g.vol - b.vol) > 1e-12L * powl(b.area, 1.5L))   /* relative to the size of the surface: a flattened mesh has volume ~0 */ { snprintf(buf, sizeof buf, "split-changed-the-enclosed-volume: %.17g -> %.17g", (double)b.vol, (double)g.vol); return buf; }
        if (fabsl(g.area - b.area) > 1e-12L * b.area) { snprintf(buf, sizeof buf, "split-changed-the-area: %.17g -> %.17g", (double)b.area, (double)g.area); return buf; }
        unsigned e = created[0];
        // parents: the two live faces of b containing both ea and eb; the opposite node identifies the children
        for (const face& pf : b.faces) { if (!pf.is_used_ || !pf.has_node(ea) || !pf.has_node(eb)) continue; unsigned opp = pf.get_opposite_node(ea, eb);
            int nchildren = 0; for (const face& cf : c.face_lst_) { if (!cf.is_used_ || !cf.has_node(e) || !cf.has_node(opp)) continue; nchildren++;
                if (cf.type_id_ != pf.type_id_) { snprintf(buf, sizeof buf, "split-child-lost-the-face-type-label: parent (%u,%u,%u) label %u child (%u,%u,%u) label %u", pf.n1_id_, pf.n2_id_, pf.n3_id_, pf.type_id_, cf.n1_id_, cf.n2_id_, cf.n3_id_, cf.type_id_); return buf; } }
            if (nchildren != 2) { snprintf(buf, sizeof buf, "split-parent-does-not-have-two-children: %d", nchildren); return buf; } }
    }
    return "";
#else
    return "";
#endif
}

// ------------------------------------------------------------------------------------------------ L1: operation level
struct L1State { std::vector<Op> hist; int phase; bool stale; };   // phase 0 = swap phase, 1 = split/merge phase

struct ApplyResult { std::string err; bool threw = false; std::string what; };

// applies one L1 op to the cell; runs the per-op oracles; updates phase/stale
static ApplyResult apply_l1(cell_ptr c, const local_mesh_refiner& lmr, const Op& op, int& phase, bool& stale) {
    ApplyResult r;
    Snap before;
#ifdef PROP_C11
    before = snap_of(*c);
#endif
    try {
        switch (op.kind) {
            case SPLIT: case MERGE: case SWAP: {
                auto eo = c->get_edge(op.a, op.b); if (!eo) { r.err = "INTERNAL edge of history not present"; return r; }
                edge e = *eo; edge_set es = c->get_edge_set();
                if (op.kind == SPLIT) { lmr.split_edge(e, c, es); phase = 1; }
                else if (op.kind == MERGE) { lmr.merge_edge(e, c, es); phase = 1; }
                else lmr.swap_edge(e, c);
                break; }
            case REFRESH: refresh(*c); phase = 0; stale = false; break;
            case REBASE_REFRESH: c->rebase(); refresh(*c); phase = 0; stale = false; break;
            case DEFORM_THEN_REFRESH: deform(*c, op.a); refresh(*c); phase = 0; stale = false; break;
            case REFRESH_THEN_DEFORM: refresh(*c); deform(*c, op.a); c->update_centroid(); phase = 0; stale = true; break;
        }
    } catch (std::exception& e) { r.threw = true; r.what = e.what(); }
    if (r.threw) return r;     // failure reported by exception: permitted (C11), the history ends here
    r.err = oracle_state(*c, stale);
    if (r.err.empty() && op.kind <= SWAP) r.err = oracle_op(before, *c, op.kind, op.a, op.b);
    return r;
}

static std::vector<Op> enabled_l1(cell_ptr c, const local_mesh_refiner& lmr, int phase) {
    std::vector<Op> ops;
    for (const edge& e : c->get_edge_set()) {
        if (phase == 0) ops.push_back({SWAP, e.n1(), e.n2()});
        ops.push_back({SPLIT, e.n1(), e.n2()});
        edge ec = e; bool can = false; try { can = lmr.can_be_merged(ec, c); } catch (...) {}
        if (can) ops.push_back({MERGE, e.n1(), e.n2()});
    }
    ops.push_back({REFRESH, 0, 0}); ops.push_back({REBASE_REFRESH, 0, 0});
    for (unsigned d = 0; d < 3; d++) { ops.push_back({DEFORM_THEN_REFRESH, d, 0}); ops.push_back({REFRESH_THEN_DEFORM, d, 0}); }
    return ops;
}

struct Built { cell_ptr c; int phase = 0; bool stale = false; std::string err; int err_at = -1; bool dead = false; bool flat = false; };
static Built build_l1(const sc::Mesh& seed, const std::vector<Op>& h, const local_mesh_refiner& lmr) {
    Built b; b.c = fresh_cell(seed);
    for (size_t i = 0; i < h.size(); i++) { ApplyResult r = apply_l1(b.c, lmr, h[i], b.phase, b.stale);
        if (clause_of(r.err) == "degenerate-flat") { b.dead = true; b.flat = true; return b; }   // geometry collapsed to a plane: not an orientation error, history ends
        if (!r.err.empty()) { b.err = r.err; b.err_at = (int)i; return b; } if (r.threw) { b.dead = true; return b; } }
    return b;
}

static std::string shape_of(const std::vector<Op>& h) { std::string s; for (auto& o : h) { if (!s.empty()) s += ">"; s += kind_name(o.kind); } return s; }

// the visited set keeps a 128-bit digest of the canonical key (two independent 64-bit hashes) instead of the key itself: the thorough tier visits millions of states of ~1 kB each
struct Key128 { uint64_t a, b; bool operator==(const Key128& o) const { return a == o.a && b == o.b; } };
struct Key128Hash { size_t operator()(const Key128& k) const { return (size_t)(k.a ^ (k.b * 0x9e3779b97f4a7c15ull)); } };
static Key128 k128(const std::string& s) { uint64_t a = 1469598103934665603ull, b = 0x84222325cbf29ce4ull; for (unsigned char ch : s) { a ^= ch; a *= 1099511628211ull; b = (b ^ ch) * 0x100000001b3ull + (b >> 29); } b ^= (uint64_t)s.size() * 0x9e3779b97f4a7c15ull; return {a, b}; }
static void explore_l1(Result& R, const Seed& seed, int depth) {
    local_mesh_refiner lmr(L_MIN, L_MAX, true);
    std::unordered_set<Key128, Key128Hash> seen; std::deque<L1State> frontier;
    { Built b = build_l1(seed.mesh, {}, lmr); if (!b.err.empty()) { R.violation("seed|" + clause_of(b.err), "seed " + seed.name + ": " + b.err, "level=L1\nseed=" + seed.name + "\nmesh=" + sc::mesh_to_text(seed.mesh) + "\nhist=\n"); sc::release(b.c); return; }
      seen.insert(k128(sc::canon_cell(*b.c) + char(b.phase) + char(b.stale))); sc::release(b.c); frontier.push_back({{}, 0, false}); }
    long& states = R["states"]; long& trans = R["transitions"]; states++;
    long replay_checked = 0;
    while (!frontier.empty()) {
        if (R.out_of_time(0.85)) { R.cap("deadline reached in L1 search on seed " + seed.name + " (frontier " + std::to_string(frontier.size()) + " states left at depth " + std::to_string(frontier.front().hist.size()) + ")"); return; }
        L1State s = frontier.front(); frontier.pop_front();
        Built b = build_l1(seed.mesh, s.hist, lmr);
        if (!b.err.empty()) { R.internal_error = "L1 frontier state does not rebuild: " + b.err; sc::release(b.c); return; }
        if (replay_checked < 300) { replay_checked++; Built b2 = build_l1(seed.mesh, s.hist, lmr); bool same = sc::canon_cell(*b.c) == sc::canon_cell(*b2.c); sc::release(b2.c); if (!same) { R.internal_error = "replay divergence (uncaptured nondeterminism) at history " + hist_text(s.hist); sc::release(b.c); return; } }
        std::vector<Op> ops = enabled_l1(b.c, lmr, b.phase);
        sc::release(b.c);
        for (const Op& op : ops) {
            std::vector<Op> h2 = s.hist; h2.push_back(op);
            Built nb = build_l1(seed.mesh, h2, lmr); trans++; R.tables["transitions_per_operation"][kind_name(op.kind)]++;
            if (!nb.err.empty()) {
                if (nb.err.rfind("INTERNAL", 0) == 0) { R.internal_error = nb.err + " at " + hist_text(h2); sc::release(nb.c); return; }
                // minimal shape key: clause + the operation that exposed it + the kinds before it
                std::string key = "L1|" + clause_of(nb.err) + "|after=" + kind_name(op.kind);
                R.violation(key, "seed " + seed.name + ", history " + hist_json(h2) + ": " + nb.err, "level=L1\nseed=" + seed.name + "\nmesh=" + sc::mesh_to_text(seed.mesh) + "\nhist=" + hist_text(h2) + "\n");
                R.tables["violating_transitions_per_clause"][clause_of(nb.err)]++;
                sc::release(nb.c); continue;    // do not expand a broken state
            }
            if (nb.flat) { R["histories_ending_in_a_flattened_mesh"]++; sc::release(nb.c); continue; }
            if (nb.dead) { R["operations_that_reported_failure_by_exception"]++; R.tables["exceptions_per_operation"][kind_name(op.kind)]++; sc::release(nb.c); continue; }
            std::string key = sc::canon_cell(*nb.c) + char(nb.phase) + char(nb.stale);
            bool isnew = seen.insert(k128(key)).second; sc::release(nb.c);
            if (isnew) { R.mix(key); states++; if ((int)h2.size() < depth) frontier.push_back({h2, nb.phase, nb.stale}); if (states % 20000 == 1) R.sample("{\"level\":\"L1\",\"seed\":\"" + seed.name + "\",\"history\":" + hist_json(h2) + "}"); }
        }
    }
}

// ------------------------------------------------------------------------------------------------ L2: pass level (H5 inside)
struct FaceKey { bool used; unsigned a, b, c; };
struct InPass { bool active = false; cell* c = nullptr; Snap before; std::vector<FaceKey> faces_before; long ops = 0; long max_ops = 0; std::string err; std::vector<Op> hist_prefix; double lmin2, lmax2; bool stale = false;
                long splits = 0, merges = 0, swaps = 0; bool threw_in_op = false; std::string aborted_op, state_when_aborted; };
static InPass g_pass;
struct op_bound_exceeded : std::exception { const char* what() const noexcept override { return "operation bound exceeded"; } };

static void on_refine_op(int kind, void* cellp, unsigned n1, unsigned n2, int phase) {
    if (!g_pass.active || cellp != g_pass.c) return;
    cell& c = *static_cast<cell*>(cellp);
    if (phase == 0) {
        g_pass.ops++; if (kind == 0) g_pass.splits++; else if (kind == 1) g_pass.merges++; else g_pass.swaps++;
        if (g_pass.ops > g_pass.max_ops) throw op_bound_exceeded();
#ifdef PROP_C11
        g_pass.before = snap_of(c);
#endif
        g_pass.faces_before.clear(); for (const face& f : c.face_lst_) g_pass.faces_before.push_back({f.is_used_, f.n1_id_, f.n2_id_, f.n3_id_});
        return;
    }
    if (std::uncaught_exceptions() > 0) {   // the operation is being left by an exception: the simulation run ends here.  What is recorded: whether the operation had already torn the surface open
        if (!g_pass.threw_in_op) { g_pass.threw_in_op = true; g_pass.aborted_op = std::string(kind_name(kind)) + "(" + std::to_string(n1) + "," + std::to_string(n2) + ")"; try { g_pass.state_when_aborted = oracle_state(c, true); } catch (...) { g_pass.state_when_aborted = "oracle-threw"; } }
        return; }
    if (!g_pass.err.empty()) return;
    std::string e = oracle_state(c, true /* cached geometry of untouched faces predates the last displacement */);
#ifdef PROP_C01
    if (e.empty()) { // cached normal vs winding on the faces this operation created is part of the statement; check all faces whose normal is fresh:
        // faces created by the operation have normals computed from current positions, so the clause is checked on every face whose
        // cached normal agrees in direction with SOME orientation of its current geometry: only a sign flip is reported.
        for (unsigned i = 0; i < c.face_lst_.size(); i++) { const face& f = c.face_lst_[i]; if (!f.is_used_) continue;
            // only faces this operation created or rewired: the cached normal of an untouched face predates the last node displacement
            if (i < g_pass.faces_before.size()) { const FaceKey& k = g_pass.faces_before[i]; if (k.used && k.a == f.n1_id_ && k.b == f.n2_id_ && k.c == f.n3_id_) continue; }
            const vec3 &A = c.node_lst_[f.n1_id_].pos_, &B = c.node_lst_[f.n2_id_].pos_, &C = c.node_lst_[f.n3_id_].pos_; vec3 nn = (B - A).cross(C - A); double nrm = nn.norm(); if (nrm == 0) continue;
            double d = nn.dot(f.normal_) / nrm; if (d < 0) { char buf[200]; snprintf(buf, sizeof buf, "cached-normal-opposes-winding: face %u (%u,%u,%u) inside a pass after %s(%u,%u)", i, f.n1_id_, f.n2_id_, f.n3_id_, kind_name(kind), n1, n2); e = buf; break; } } }
#endif
    if (e.empty()) e = oracle_op(g_pass.before, c, kind, n1, n2, kind == SWAP ? -1 : g_pass.lmin2, kind == SWAP ? -1 : g_pass.lmax2);
    if (!e.empty()) g_pass.err = std::string("inside pass, after ") + kind_name(kind) + "(" + std::to_string(n1) + "," + std::to_string(n2) + "): " + e;
}

static bool in_band_and_good(const cell& c, const local_mesh_refiner& lmr, cell_ptr cp) {
    for (const edge& e : c.edge_set_) { double l2 = (c.node_lst_[e.n1()].pos_ - c.node_lst_[e.n2()].pos_).squared_norm(); if (!(l2 <= L_MAX * L_MAX && l2 >= L_MIN * L_MIN)) return false; }
    // the quality of every triangle is computed here from the node positions (the rule itself reads the cached face areas: with fresh caches the two agree, and a cache that an earlier
    // operation of the history left stale must not make a conforming mesh look elongated); triangles within 1e-9 of the threshold decide nothing
    for (const face& f : c.face_lst_) if (f.is_used_) { const vec3 &p0 = c.node_lst_[f.n1_id_].pos_, &p1 = c.node_lst_[f.n2_id_].pos_, &p2 = c.node_lst_[f.n3_id_].pos_; const double per = (p1 - p0).norm() + (p2 - p1).norm() + (p0 - p2).norm(), area = 0.5 * (p1 - p0).cross(p2 - p0).norm();
        if (!(36. / std::sqrt(3.) * area / (per * per) >= 0.2 * (1 + 1e-9))) return false; (void)lmr; (void)cp; }
    return true;
}

struct L2Apply { std::string err; bool threw = false; std::string what; };
static L2Apply apply_l2(cell_ptr c, const Op& op, bool& stale) {
    L2Apply r; char buf[300];
    switch (op.kind) {
        case L2_DEFORM: deform(*c, op.a); stale = true; break;
        case L2_REBASE: try { c->rebase(); } catch (std::exception& e) { r.err = std::string("rebase-threw-on-a-valid-mesh: ") + e.what(); return r; } break;
        case L2_REFRESH: refresh(*c); stale = false; break;
        case L2_REFINE_SWAP: case L2_REFINE_NOSWAP: {
            local_mesh_refiner lmr(L_MIN, L_MAX, op.kind == L2_REFINE_SWAP);
            // solver order: forces (refresh) -> integrate (moves nodes) -> refine.  Geometry is refreshed unless the history says otherwise.
            Snap before = snap_of(*c); std::string key_before = sc::canon_cell(*c, false);
            bool unchanged_expected = (!stale && in_band_and_good(*c, lmr, c)) || (op.kind == L2_REFINE_NOSWAP && [&] { for (const edge& e : c->edge_set_) { double l2 = (c->node_lst_[e.n1()].pos_ - c->node_lst_[e.n2()].pos_).squared_norm(); if (!(l2 <= L_MAX * L_MAX && l2 >= L_MIN * L_MIN)) return false; } return true; }());
            g_pass = InPass(); g_pass.active = true; g_pass.c = c.get(); g_pass.max_ops = 50 * (long)c->edge_set_.size() + 50 + (long)(40.0 * (double)before.area / (L_MIN * L_MIN));   /* a mesh whose edges are all >= l_min has O(area / l_min^2) triangles */ g_pass.lmin2 = L_MIN * L_MIN; g_pass.lmax2 = L_MAX * L_MAX; g_pass.stale = stale;
            try { lmr.refine_mesh(c); }
            catch (op_bound_exceeded&) { g_pass.active = false; r.err = "pass-does-not-terminate-within-operation-bound: more than " + std::to_string(g_pass.max_ops) + " operations"; return r; }
            catch (std::exception& e) { r.threw = true; r.what = e.what(); }        // failure reported by exception is allowed by the statement
            g_pass.active = false;
            if (!g_pass.err.empty()) { r.err = g_pass.err; return r; }
#ifdef PROP_C01
            // an operation that is left by an exception after it has already torn the surface open: the pass ends with a cell that is no longer a closed manifold (every operation before it
            // was checked, so the mesh it started from was one).  A refusal that leaves the surface intact, and the pass's own 'refinement failed' report, are not judged.
            if (r.threw && g_pass.threw_in_op && !g_pass.state_when_aborted.empty()) { r.err = "inside pass, " + g_pass.aborted_op + " aborted by exception (" + r.what.substr(0, 120) + "): operation-aborted-with-the-surface-torn-open: " + g_pass.state_when_aborted; r.threw = false; return r; }
#endif
            if (r.threw) return r;
#ifdef PROP_C11
            if (unchanged_expected && sc::canon_cell(*c, false) != key_before) { snprintf(buf, sizeof buf, "pass-changed-a-mesh-already-inside-the-band: %ld splits %ld merges %ld swaps", g_pass.splits, g_pass.merges, g_pass.swaps); r.err = buf; return r; }
#endif
            break; }
    }
    if (r.err.empty()) r.err = oracle_state(*c, stale);
    return r;
}

struct BuiltL2 { cell_ptr c; bool stale = false; std::string err; bool dead = false; bool flat = false; std::string what; };
static BuiltL2 build_l2(const sc::Mesh& seed, const std::vector<Op>& h) {
    BuiltL2 b; b.c = fresh_cell(seed);
    for (size_t i = 0; i < h.size(); i++) { L2Apply r = apply_l2(b.c, h[i], b.stale);
        if (r.err.find("degenerate-flat") != std::string::npos) { b.dead = true; b.flat = true; return b; }
        if (!r.err.empty()) { b.err = r.err; return b; } if (r.threw) { b.dead = true; b.what = r.what; return b; } }
    return b;
}

static void explore_l2(Result& R, const Seed& seed, int depth) {
    std::vector<Op> alphabet; for (unsigned d = 10; d <= 19; d++) alphabet.push_back({L2_DEFORM, d, 0});
    alphabet.push_back({L2_REFINE_SWAP, 0, 0}); alphabet.push_back({L2_REFINE_NOSWAP, 0, 0}); alphabet.push_back({L2_REBASE, 0, 0}); alphabet.push_back({L2_REFRESH, 0, 0});
    std::unordered_set<Key128, Key128Hash> seen; std::deque<std::vector<Op>> frontier; frontier.push_back({});
    { BuiltL2 b = build_l2(seed.mesh, {}); seen.insert(k128(sc::canon_cell(*b.c) + char(b.stale))); sc::release(b.c); }
    long& states = R["states"]; long& trans = R["transitions"]; states++;
    while (!frontier.empty()) {
        if (R.out_of_time(0.85)) { R.cap("deadline reached in L2 search on seed " + seed.name); return; }
        std::vector<Op> h = frontier.front(); frontier.pop_front();
        for (const Op& op : alphabet) {
            // a refine pass in the solver is always preceded by a refresh of normals/areas (forces phase) and then a displacement;
            // meshes so large that a pass costs seconds are cut off (bounded alphabet of sizes)
            std::vector<Op> h2 = h; h2.push_back(op);
            BuiltL2 nb = build_l2(seed.mesh, h2); trans++; R.tables["transitions_per_operation"][kind_name(op.kind)]++;
            if (!nb.err.empty()) {
                std::string key = "L2|" + clause_of(nb.err.substr(nb.err.rfind("): ") == std::string::npos ? 0 : nb.err.rfind("): ") + 3)) + "|in=" + kind_name(op.kind);
                R.violation(key, "seed " + seed.name + ", history " + hist_json(h2) + ": " + nb.err, "level=L2\nseed=" + seed.name + "\nmesh=" + sc::mesh_to_text(seed.mesh) + "\nhist=" + hist_text(h2) + "\n");
                sc::release(nb.c); continue; }
            if (nb.flat) { R["histories_ending_in_a_flattened_mesh"]++; sc::release(nb.c); continue; }
            if (nb.dead) { R["passes_that_reported_failure_by_exception"]++; R.tables["pass_exceptions"][(g_pass.threw_in_op ? "inside " + g_pass.aborted_op.substr(0, g_pass.aborted_op.find('(')) + (g_pass.state_when_aborted.empty() ? " [surface intact]: " : " [surface torn: " + clause_of(g_pass.state_when_aborted) + "]: ") : std::string("by the pass itself: ")) + nb.what.substr(0, 80)]++; sc::release(nb.c); continue; }
            if (op.kind == L2_REFINE_SWAP || op.kind == L2_REFINE_NOSWAP) { R["ops_inside_passes"] += g_pass.ops; R.tables["ops_inside_passes"]["split"] += g_pass.splits; R.tables["ops_inside_passes"]["merge"] += g_pass.merges; R.tables["ops_inside_passes"]["swap"] += g_pass.swaps; }
            size_t nlive = nb.c->get_nb_of_nodes();
            std::string key = sc::canon_cell(*nb.c) + char(nb.stale); bool isnew = seen.insert(k128(key)).second; sc::release(nb.c);
            if (isnew) { R.mix(key); states++; if ((int)h2.size() < depth && nlive <= 400) frontier.push_back(h2); if (states % 500 == 1) R.sample("{\"level\":\"L2\",\"seed\":\"" + seed.name + "\",\"history\":" + hist_json(h2) + "}"); }
        }
    }
}

// ------------------------------------------------------------------------------------------------ replay
static int replay_any(const Replay& rp, Result& R) {
    sc::Mesh m = sc::mesh_from_text(rp.get("mesh")); std::vector<Op> h = hist_parse(rp.get("hist")); std::string level = rp.get("level");
    std::string e1, e2;
    if (level == "L1") { local_mesh_refiner lmr(L_MIN, L_MAX, true); Built a = build_l1(m, h, lmr); e1 = a.err; sc::release(a.c); Built b = build_l1(m, h, lmr); e2 = b.err; sc::release(b.c); }
    else if (level == "L2") { BuiltL2 a = build_l2(m, h); e1 = a.err; sc::release(a.c); BuiltL2 b = build_l2(m, h); e2 = b.err; sc::release(b.c); }
    else { printf("unknown level %s\n", level.c_str()); return 0; }
    if (e1 != e2) { printf("replay diverged: '%s' vs '%s'\n", e1.c_str(), e2.c_str()); return 0; }
    printf("history %s\n%s\n", hist_json(h).c_str(), e1.c_str());
    if (!e1.empty()) { R.violation(clause_of(e1), e1, ""); return 1; } return 0;
}

} // namespace rx

// strong definition of the H5 hook
namespace simucell3d_verif { void refine_op(int kind, void* cell, unsigned n1, unsigned n2, int phase) { rx::on_refine_op(kind, cell, n1, n2, phase); } }
