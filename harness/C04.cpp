// C04 — growth, pressure, division trigger, 3-sigma clamp, removal (engine E1 over histories + exhaustive seed range, hooks H2, H6).
#include "solver_world.hpp"
using namespace vf;

static const double INF = std::numeric_limits<double>::infinity();

// ------------------------------------------------------------------------------------------------ (a) cell-cycle law
struct LawParams { double growth, min_vol_factor, K, pmax, div_factor, p0; };    // factors are relative to the initial volume
static std::string law_json(const LawParams& p) { return "{\"growth_rate\":" + jnum(p.growth) + ",\"min_vol/V0\":" + jnum(p.min_vol_factor) + ",\"K\":" + jnum(p.K) + ",\"max_pressure\":" + (std::isinf(p.pmax) ? std::string("\"INF\"") : jnum(p.pmax)) + ",\"division_vol/V0\":" + (std::isinf(p.div_factor) ? std::string("\"INF\"") : jnum(p.div_factor)) + ",\"initial_pressure\":" + jnum(p.p0) + "}"; }
static const double SCALES[4] = {1.0, 1.1, 0.9, 0.5};

static std::string* g_trace = nullptr;   // observable outcome of the current history (for the measured count of distinct cases)
static std::string run_law(int type_gid, const LawParams& lp, const std::vector<int>& hist, long* steps = nullptr, int prep = 0 /* 1: the cell first goes through a real edge collapse and carries free node and face slots */) {
    auto ty = sc::make_cell_type((short)type_gid, 3); sc::Mesh m = sc::icosphere(1); char buf[400];
    cell_ptr probe = sc::make_cell(m, 0, ty, true); const double V0 = probe->get_volume(); probe->clear_data();
    ty->avg_growth_rate_ = lp.growth; ty->std_growth_rate_ = 0; ty->min_vol_ = lp.min_vol_factor * V0; ty->bulk_modulus_ = lp.K; ty->max_pressure_ = lp.pmax; ty->avg_division_vol_ = lp.div_factor * V0; ty->std_division_vol_ = 0; ty->initial_pressure_ = lp.p0;
    for (auto& f : ty->face_types_) f.surface_tension_ = 0.1;
    global_simulation_parameters p = sc::make_sim_params(sw::scratch_root() + "/c04", 0.3); const double dt = 0.05; p.time_step_ = dt;
    std::string err;
    try {
        sw::World W({{m, ty}}, p); cell& c = *W.cells()[0];
        // initial target volume V exp(P0/K) after solver construction
        { sc::Geom g = sc::geom_of(c); double expect = (double)g.vol * std::exp(lp.p0 / lp.K); if (std::fabs(c.get_target_volume() - expect) > 1e-9 * expect) { snprintf(buf, sizeof buf, "initial-target-volume-is-not-V-exp(P0/K): %.17g expected %.17g", c.get_target_volume(), expect); return buf; } }
        if (c.get_growth_rate() != lp.growth) { snprintf(buf, sizeof buf, "growth-rate-differs-from-mean-with-zero-sigma: %.17g vs %.17g", c.get_growth_rate(), lp.growth); return buf; }
        if (!(c.get_division_volume() == lp.div_factor * V0)) { snprintf(buf, sizeof buf, "division-volume-differs-from-mean-with-zero-sigma: %.17g vs %.17g", c.get_division_volume(), lp.div_factor * V0); return buf; }
        if (prep) { local_mesh_refiner lmr(1e-3, 1e3, true); cell_ptr cp = W.cells()[0]; for (const edge& e0 : cp->get_edge_set()) { edge e = e0; bool can = false; try { can = lmr.can_be_merged(e, cp); } catch (...) {} if (!can) continue; edge_set es = cp->get_edge_set(); try { lmr.merge_edge(e, cp, es); } catch (...) {} break; } if (c.get_nb_of_faces() == c.face_lst_.size()) return "INTERNAL the preparatory edge collapse left no free slot"; }
        double target = c.get_target_volume();
        for (size_t i = 0; i < hist.size(); i++) { sw::scale_cell(c, SCALES[hist[i]]); const double before_target = c.get_target_volume();
            c.apply_internal_forces(dt); if (steps) (*steps)++;
            if (type_gid == 1) { if (c.get_target_volume() != before_target) return "ecm-cell-target-volume-changed"; continue; }   // ECM cells skip internal forces by design (ecm_cell::apply_internal_forces)
            sc::Geom g = sc::geom_of(c); const double V = (double)g.vol;
            target = std::max(target + lp.growth * dt, ty->min_vol_);
            if (std::fabs(c.get_target_volume() - target) > 1e-12 * std::max(1.0, std::fabs(target))) { snprintf(buf, sizeof buf, "target-volume-law: step %zu reported %.17g expected max(target+g*dt, Vmin) = %.17g", i, c.get_target_volume(), target); return buf; }
            if (std::fabs(c.get_volume() - V) > 1e-9 * V) { snprintf(buf, sizeof buf, "volume-is-not-the-enclosed-volume-of-the-current-mesh: %.17g vs %.17g", c.get_volume(), V); return buf; }
            double pexp = std::min(-lp.K * std::log(V / target), lp.pmax);
            if (std::fabs(c.get_pressure() - pexp) > 1e-9 * std::max(1.0, std::fabs(pexp)) * std::max(1.0, lp.K)) { snprintf(buf, sizeof buf, "pressure-law: step %zu reported %.17g expected min(-K ln(V/Vt), Pmax) = %.17g (V=%.9g Vt=%.9g)", i, c.get_pressure(), pexp, V, target); return buf; }
            bool ready = c.is_ready_to_divide(), expect_ready = (type_gid == 0) && (V >= lp.div_factor * V0);
            if (std::fabs(V - lp.div_factor * V0) > 1e-9 * V && ready != expect_ready) { snprintf(buf, sizeof buf, "division-trigger: step %zu is_ready_to_divide=%d but V=%.9g division volume=%.9g cell type %d", i, (int)ready, V, lp.div_factor * V0, type_gid); return buf; }
            if (g_trace) { snprintf(buf, sizeof buf, "%.9g %.9g %d %d;", c.get_target_volume(), c.get_pressure(), (int)ready, (int)c.is_below_min_vol()); *g_trace += buf; }
            if (i + 1 == hist.size() && type_gid != 1) { // the thresholds themselves: 'has reached' its division volume = at equality; 'falls below' the minimum = not at equality
                const double keep_div = c.division_volume_; auto own = std::make_shared<cell_type_parameters>(*c.cell_type_); auto keep_type = c.cell_type_; c.division_volume_ = c.get_volume(); own->min_vol_ = c.get_volume(); c.cell_type_ = own;
                if (type_gid == 0 && !c.is_ready_to_divide()) return "division-trigger: a cell whose volume equals its division volume is not eligible"; if (type_gid != 0 && c.is_ready_to_divide()) return "division-trigger: a non-epithelial cell is eligible"; if (c.is_below_min_vol()) return "below-minimum-volume-flag: a cell whose volume equals the minimum volume is flagged for removal";
                c.division_volume_ = std::nextafter(c.get_volume(), 1e300); if (c.is_ready_to_divide()) return "division-trigger: eligible one ulp below the division volume"; own->min_vol_ = std::nextafter(c.get_volume(), 1e300); if (!c.is_below_min_vol()) return "below-minimum-volume-flag: not flagged one ulp below the minimum volume";
                c.division_volume_ = keep_div; c.cell_type_ = keep_type; }
            bool below = c.is_below_min_vol(); if (std::fabs(V - ty->min_vol_) > 1e-9 * V && below != (V < ty->min_vol_)) { snprintf(buf, sizeof buf, "below-minimum-volume-flag: step %zu flag=%d V=%.9g Vmin=%.9g", i, (int)below, V, ty->min_vol_); return buf; }
        }
    } catch (std::exception& e) { err = std::string("exception: ") + e.what(); }
    return err;
}

// ------------------------------------------------------------------------------------------------ (b) 3-sigma clamp over a seed range
struct ClampParams { double ag, sg, ad, sd; };
static const std::vector<ClampParams> CLAMP_MENU = { {5.0, 0.5, 10.0, 2.0},            // growth spread < division spread
                                                     {5.0, 2.0, 10.0, 0.5},            // growth spread > division spread
                                                     {-1.0, 0.25, 3.0, 0.01},          // negative mean growth (shrinking cells), narrow division band
                                                     {2e-11, 2e-12, 1.4e-14, 1.4e-15}  // the magnitudes of parameters_default_dynamic.xml
                                                   };
static std::string clamp_json(const ClampParams& p) { return "{\"avg_growth\":" + vf::jnum(p.ag) + ",\"std_growth\":" + vf::jnum(p.sg) + ",\"avg_division_vol\":" + vf::jnum(p.ad) + ",\"std_division_vol\":" + vf::jnum(p.sd) + "}"; }
static unsigned long g_forced_seed = 0; static bool g_force = false;
namespace simucell3d_verif { unsigned long rng_seed(const char* site, unsigned long key) { if (g_force) return g_forced_seed; unsigned long h = g_base_seed * 1000003ul + key; for (const char* s = site; *s; ++s) h = h * 131 + (unsigned char)*s; return h % 2147483646ul + 1; } }

// ------------------------------------------------------------------------------------------------ (c) removal
struct harness_abort : std::exception { std::string msg; harness_abort(const std::string& m) : msg(m) {} const char* what() const noexcept override { return msg.c_str(); } };
typedef std::vector<std::vector<int>> History;
static std::string hist_text(const History& h) { std::string s; for (auto& st : h) { if (!s.empty()) s += "|"; for (int e : st) s += char('0' + e); } return s; }
static History hist_parse(const std::string& s) { History h(1); for (char ch : s) { if (ch == '|') h.push_back({}); else h.back().push_back(ch - '0'); } if (s.empty()) h.clear(); return h; }

static std::string run_removal(int ncells, const History& h, size_t* final_pop = nullptr, long* removed = nullptr) {
    sc::Mesh ico = sc::icosphere(1); std::vector<sw::CellSpec> cs; for (int i = 0; i < ncells; i++) { auto ty = sc::make_cell_type(i == 1 ? 2 : 0, 3); ty->min_vol_ = 0; cs.push_back({sc::translated(ico, 3.0 * i, 0, 0), ty}); }
    global_simulation_parameters p = sc::make_sim_params(sw::scratch_root() + "/c04r", 0.3); p.time_step_ = 1e-3; p.sampling_period_ = 1e9; p.simulation_duration_ = 1e9;
    std::string err; char buf[300];
    try {
        sw::World W(cs, p); std::set<unsigned> gone_ids; std::vector<unsigned> order_before; std::set<unsigned> expect_gone;
        // at the "remove" boundary the volumes that decide are final: record who must go, in which order the others stand
        sw::phase_cb() = [&](solver* s, const char* ph) { if (strcmp(ph, "remove")) return; order_before.clear(); expect_gone.clear();
            for (auto& c : s->cell_lst_) { sc::Geom g = sc::geom_of(*c); bool below = (double)g.vol < c->get_cell_type()->min_vol_ * (1 - 1e-9); bool above = (double)g.vol > c->get_cell_type()->min_vol_ * (1 + 1e-9);
                if (below) expect_gone.insert(c->get_id()); else if (above) order_before.push_back(c->get_id()); else order_before.push_back(c->get_id() | 0x80000000u); } };
        for (size_t it = 0; it < h.size(); it++) { auto& L = W.cells();
            for (size_t i = 0; i < L.size() && i < h[it].size(); i++) if (h[it][i]) { cell& c = *L[i]; double v = c.compute_volume(); c.cell_type_ = std::make_shared<cell_type_parameters>(*c.cell_type_); c.cell_type_->min_vol_ = 0.6 * v; sw::scale_cell(c, 0.8); }
            if (L.empty()) break;   // solver::run stops on an empty population
            W.s->run_iteration();
            std::vector<unsigned> after; for (auto& c : W.cells()) after.push_back(c->get_id());
            for (unsigned id : after) { if (expect_gone.count(id)) { snprintf(buf, sizeof buf, "cell-below-minimum-volume-not-removed: id %u after iteration %zu", id, it); return buf; } if (gone_ids.count(id)) { snprintf(buf, sizeof buf, "removed-cell-reappeared: id %u", id); return buf; } }
            std::vector<unsigned> expect_order; for (unsigned id : order_before) if (!(id & 0x80000000u)) expect_order.push_back(id);
            std::vector<unsigned> after_strict; for (unsigned id : after) { bool borderline = false; for (unsigned x : order_before) if (x == (id | 0x80000000u)) borderline = true; if (!borderline) after_strict.push_back(id); }
            if (after_strict != expect_order) { std::string a, b; for (unsigned x : after_strict) a += std::to_string(x) + " "; for (unsigned x : expect_order) b += std::to_string(x) + " "; return "survivors-differ-or-changed-order: after iteration " + std::to_string(it) + " population [" + a + "] expected [" + b + "]"; }
            for (unsigned id : expect_gone) { gone_ids.insert(id); if (removed) (*removed)++; }
        }
        if (final_pop) *final_pop = W.cells().size();
    } catch (harness_abort& e) { err = e.msg; } catch (std::exception& e) { err = std::string("exception: ") + e.what(); }
    return err;
}

static void explore(Result& R) {
    const bool th = R.args.thorough();
    // (a) law
    std::vector<LawParams> menu;
    for (double g : {-1.0, 0.0, 1.0}) for (double mv : {0.2, 1.3}) for (double K : {1.0, 1e4}) for (double pm : {0.05, INF}) for (double dv : {0.7, 1.4, INF}) for (double p0 : {0.0, 0.3}) { if (!th && p0 != 0.0 && !(g == 1.0 && K == 1.0)) continue; menu.push_back({g * 2.0, mv, K, pm, dv, p0}); }
    long law_hist = 0, law_steps = 0; int depth = th ? 4 : 3;
    for (int ty = 0; ty < 5; ty++) for (auto& lp : menu) { long nh = 1; for (int d = 0; d < depth; d++) nh *= 4;
        for (long code = 0; code < nh; code++) { if (R.out_of_time(0.5)) { R.cap("deadline in the cell-cycle law block"); goto removal; } std::vector<int> h; long c = code; for (int d = 0; d < depth; d++) { h.push_back(c % 4); c /= 4; }
            { std::string hs; for (int x : h) hs += char('0' + x); progress("mode=law\ntype=" + std::to_string(ty) + "\nparams=" + dhex(lp.growth) + " " + dhex(lp.min_vol_factor) + " " + dhex(lp.K) + " " + dhex(lp.pmax) + " " + dhex(lp.div_factor) + " " + dhex(lp.p0) + "\nhist=" + hs + "\n"); }
            for (int prep = 0; prep < 2; prep++) { if (prep && ((law_hist + ty) % (th ? 2 : 5))) continue;   /* every second (quick: fifth) history also on a cell that carries free slots */
            std::string tr; g_trace = &tr; std::string e = run_law(ty, lp, h, &law_steps, prep); g_trace = nullptr; if (!prep) law_hist++; else R["law_histories_on_a_cell_with_free_slots"]++; if (e.rfind("INTERNAL", 0) == 0) { R.internal_error = e; return; } if (!tr.empty()) R.distinct_case("law " + std::to_string(ty) + " " + std::to_string(prep) + " " + tr);
            if (e.rfind("exception", 0) == 0) { R["law_histories_ended_by_exception"]++; continue; }
            if (!e.empty()) { std::string hs; for (int x : h) hs += char('0' + x); R.violation(clause_of(e) + "|type=" + std::to_string(ty), "cell type " + std::to_string(ty) + ", parameters " + law_json(lp) + ", scaling history " + hs + ": " + e, "mode=law\ntype=" + std::to_string(ty) + "\nparams=" + dhex(lp.growth) + " " + dhex(lp.min_vol_factor) + " " + dhex(lp.K) + " " + dhex(lp.pmax) + " " + dhex(lp.div_factor) + " " + dhex(lp.p0) + "\nhist=" + hs + "\nprep=" + std::to_string(prep) + "\n"); }
            if (law_hist % 20000 == 1) R.sample("{\"block\":\"law\",\"cell_type\":" + std::to_string(ty) + ",\"params\":" + law_json(lp) + ",\"scalings\":\"" + [&] { std::string s; for (int x : h) s += char('0' + x); return s; }() + "\"}"); } } }
removal:
    R["law_histories"] = law_hist; R["law_steps"] = law_steps;
    // (b) clamp: complete seed range through the H2 seam
    { g_force = true; long total = 0;
      for (size_t m = 0; m < CLAMP_MENU.size(); m++) { const ClampParams& cp = CLAMP_MENU[m]; auto ty = sc::make_cell_type(0, 3); ty->avg_growth_rate_ = cp.ag; ty->std_growth_rate_ = cp.sg; ty->avg_division_vol_ = cp.ad; ty->std_division_vol_ = cp.sd; cell_ptr c = sc::make_cell(sc::octahedron(), 0, ty, true);
        long N = th ? 1000000 : 100000; long lo_g = 0, hi_g = 0, lo_d = 0, hi_d = 0, in_g = 0, in_d = 0; const double glo = cp.ag - 3 * cp.sg, ghi = cp.ag + 3 * cp.sg, dlo = cp.ad - 3 * cp.sd, dhi = cp.ad + 3 * cp.sd, tg = 1e-12 * std::max(std::fabs(glo), std::fabs(ghi)), td = 1e-12 * std::max(std::fabs(dlo), std::fabs(dhi));
        for (long s = 1; s <= N; s++) { g_forced_seed = (unsigned long)s; c->initialize_random_properties(); double g = c->get_growth_rate(), d = c->get_division_volume(); total++;
          if (!(g >= glo - tg && g <= ghi + tg)) { R.violation("growth-rate-outside-3-sigma|menu=" + std::to_string(m), "parameters " + clamp_json(cp) + ", seed " + std::to_string(s) + ": growth rate " + jnum(g) + " outside [" + jnum(glo) + ", " + jnum(ghi) + "]", "mode=clamp\nmenu=" + std::to_string(m) + "\nseed=" + std::to_string(s) + "\n"); break; }
          if (!(d >= dlo - td && d <= dhi + td)) { R.violation("division-volume-outside-3-sigma|menu=" + std::to_string(m), "parameters " + clamp_json(cp) + ", seed " + std::to_string(s) + ": division volume " + jnum(d) + " outside [" + jnum(dlo) + ", " + jnum(dhi) + "]", "mode=clamp\nmenu=" + std::to_string(m) + "\nseed=" + std::to_string(s) + "\n"); break; }
          { char kb[80]; snprintf(kb, sizeof kb, "clamp %zu %.17g %.17g", m, g, d); R.distinct_case(kb); }
          if (g == glo) lo_g++; else if (g == ghi) hi_g++; else in_g++; if (d == dlo) lo_d++; else if (d == dhi) hi_d++; else in_d++; }
        std::string tn = "clamp_branch_hits_menu" + std::to_string(m); R.tables[tn]["growth_low"] = lo_g; R.tables[tn]["growth_high"] = hi_g; R.tables[tn]["growth_inside"] = in_g; R.tables[tn]["division_low"] = lo_d; R.tables[tn]["division_high"] = hi_d; R.tables[tn]["division_inside"] = in_d;
        if (!(lo_g && hi_g && lo_d && hi_d && in_g && in_d) && R.violations.empty()) R.internal_error = "a clamp branch was never taken in the seed range (vacuous), menu " + std::to_string(m);
        if (m == 0) { // INF division volume stays INF
          ty->avg_division_vol_ = INF; g_forced_seed = 7; c->initialize_random_properties(); if (!std::isinf(c->get_division_volume())) R.violation("infinite-division-volume-not-preserved", "INF mean with sigma 2 gave " + jnum(c->get_division_volume()), "mode=clamp\nmenu=0\nseed=7\n"); }
        c->clear_data(); }
      R["clamp_seeds"] = total; g_force = false; }
    // (c) removal: all assignments of {keep, shrink} over 3 iterations, populations of 2..4
    { long hist = 0, removed = 0; for (int n = 2; n <= (th ? 4 : 3); n++) { std::deque<History> fr; fr.push_back({}); int D = 3;
        while (!fr.empty()) { if (R.out_of_time(0.92)) { R.cap("deadline in the removal block"); break; } History h = fr.front(); fr.pop_front(); size_t pop = n; if (!h.empty()) { size_t fp = 0; std::string e = run_removal(n, h, &fp); if (!e.empty()) continue; pop = fp; } if (pop == 0) { R["removal_histories_reaching_empty_population"]++; continue; }
            for (long code = 0; code < (1l << pop); code++) { std::vector<int> ev(pop); for (size_t i = 0; i < pop; i++) ev[i] = (code >> i) & 1; History h2 = h; h2.push_back(ev); size_t fp = 0; std::string e = run_removal(n, h2, &fp, &removed); hist++; R.distinct_case("removal " + std::to_string(n) + " " + hist_text(h2) + " -> " + std::to_string(fp));
                if (e.rfind("exception", 0) == 0) { R["removal_histories_ended_by_exception"]++; continue; }
                if (!e.empty()) { R.violation(clause_of(e), std::to_string(n) + " cells, history " + hist_text(h2) + ": " + e, "mode=removal\nn=" + std::to_string(n) + "\nhist=" + hist_text(h2) + "\n"); continue; }
                if ((int)h2.size() < D) fr.push_back(h2); if (hist % 100 == 1) R.sample("{\"block\":\"removal\",\"cells\":" + std::to_string(n) + ",\"shrink_events\":\"" + hist_text(h2) + "\"}"); } } }
      R["removal_histories"] = hist; R["cells_removed"] = removed; if (!removed) R.internal_error = "no cell was ever removed (vacuous)"; }
    sw::cleanup_scratch();
    R["states"] = R["law_histories"] + R["removal_histories"] + R["clamp_seeds"]; R["transitions"] = R["law_steps"] + R["removal_histories"] + R["clamp_seeds"]; R["evaluations"] = R["transitions"]; R["distinct_nontrivial"] = R["states"]; R["traces_validated_against_impl"] = R["law_histories"] + R["removal_histories"];
    R.strings["rule"] = "distinct_nontrivial = number of DISTINCT observable outcomes (hashed): per law history the sequence of (target volume, pressure, ready, below-minimum) it produced, per seed the drawn (growth rate, division volume), per removal history the surviving population; law block: every cell type x parameter menu x every scaling history of the stated depth over {keep, x1.1, x0.9, x0.5} (every fifth / second of them also on a cell that first went through a real edge collapse and carries free slots), apply_internal_forces after each scaling, the two thresholds probed at equality and one ulp off after the last step, compared step by step with the reference law (volume from an independent long double computation); clamp block: every seed 1..N handed to the real generators through the H2 seam; removal block: every assignment of {keep, shrink below minimum volume} to every cell over 3 real solver iterations, the survivors and their order compared with the volumes measured at the H6 'remove' boundary";
    R.assumptions = {"ECM cells are not subject to internal forces (ecm_cell overrides apply_internal_forces): only 'nothing changes' is checked for them; static cells are (they are only excluded from the position update)", "tolerances: target volume 1e-12, pressure and volume 1e-9 relative; decisions within 1e-9 of a threshold are not judged"};
}

static int replay(const Replay& rp, Result& R) {
    std::string mode = rp.get("mode"), e1, e2;
    if (mode == "law") { LawParams lp; std::istringstream i(rp.get("params")); std::string t[6]; for (auto& x : t) i >> x; lp = {strtod(t[0].c_str(), 0), strtod(t[1].c_str(), 0), strtod(t[2].c_str(), 0), strtod(t[3].c_str(), 0), strtod(t[4].c_str(), 0), strtod(t[5].c_str(), 0)}; std::vector<int> h; for (char ch : rp.get("hist")) h.push_back(ch - '0'); e1 = run_law((int)rp.geti("type"), lp, h, nullptr, (int)rp.geti("prep", 0)); e2 = run_law((int)rp.geti("type"), lp, h, nullptr, (int)rp.geti("prep", 0)); }
    else if (mode == "removal") { History h = hist_parse(rp.get("hist")); e1 = run_removal((int)rp.geti("n"), h); e2 = run_removal((int)rp.geti("n"), h); }
    else { const ClampParams& cp = CLAMP_MENU.at((size_t)rp.geti("menu")); auto ty = sc::make_cell_type(0, 3); ty->avg_growth_rate_ = cp.ag; ty->std_growth_rate_ = cp.sg; ty->avg_division_vol_ = cp.ad; ty->std_division_vol_ = cp.sd; cell_ptr c = sc::make_cell(sc::octahedron(), 0, ty, true); g_force = true; g_forced_seed = rp.geti("seed"); c->initialize_random_properties(); printf("growth %.17g division volume %.17g\n", c->get_growth_rate(), c->get_division_volume());
        const double glo = cp.ag - 3 * cp.sg, ghi = cp.ag + 3 * cp.sg, dlo = cp.ad - 3 * cp.sd, dhi = cp.ad + 3 * cp.sd, tg = 1e-12 * std::max(std::fabs(glo), std::fabs(ghi)), td = 1e-12 * std::max(std::fabs(dlo), std::fabs(dhi));
        bool bad = !(c->get_growth_rate() >= glo - tg && c->get_growth_rate() <= ghi + tg && c->get_division_volume() >= dlo - td && c->get_division_volume() <= dhi + td); c->clear_data(); sw::cleanup_scratch(); if (bad) { R.violation("clamp", "outside 3 sigma", ""); return 1; } return 0; }
    sw::cleanup_scratch(); if (e1 != e2) { printf("replay diverged\n"); return 0; } printf("%s\n", e1.c_str()); if (!e1.empty()) { R.violation(clause_of(e1), e1, ""); return 1; } return 0;
}
int main(int argc, char** argv) { return run_main(argc, argv, "C04", explore, replay); }
