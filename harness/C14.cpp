// C14 — simulation results do not depend on where the tissue is placed in space (engine E2 over runs).
// Tissues x dyadic translations x iteration counts; pairwise comparison of a reference run with the translated run, with the run's own
// sensitivity (a 1-ulp perturbation run) as yardstick so that chaotic growth is not mistaken for frame dependence.
#include "solver_world.hpp"
using namespace vf;

struct Tissue { const char* name; };
static const char* TISSUES[] = {"one growing cell (remeshing)", "two adhering epithelial cells", "epithelial cell overlapping an ECM cell", "nucleus inside an epithelial cell", "lumen cell next to an epithelial cell, both growing", "two adhering epithelial cells, the first with an edge far below the minimum length (collapsed in the first iteration: free slots from then on)"};
static const int NTR = 10;
static const double TR[NTR][3] = {{0.25, 0, 0}, {1.125, -1.125, 0}, {8, -8, 8}, {1024, 1024, 1024}, {-5, -2.5, -1.5}, {-1024, 2048, 0.5}, {131072, -65536, 32768}, {-3.5, -1.25, -0.75} /* puts the vertex of the first cell that faces its neighbour (the middle of the contact zone of the two-cell tissues) exactly at the coordinate origin */, {-2.0, -1.25, -0.75} /* the tissue's reference point half a cell size from the coordinate origin: the origin lies inside the first cell, off its centre */,
    {-2048, -1536, -1024} /* the whole tissue far away in the octant where every coordinate is negative */};
static const double ORIGIN[3] = {2.5, 1.25, 0.75};

static std::vector<sw::CellSpec> make_tissue(int t, const double tr[3], double eps_node0) {
    using namespace sc; std::vector<sw::CellSpec> cs; double ox = ORIGIN[0] + tr[0], oy = ORIGIN[1] + tr[1], oz = ORIGIN[2] + tr[2];
    auto epi = [&](double growth) { auto ty = make_cell_type(0, 3); ty->bulk_modulus_ = 20; ty->avg_growth_rate_ = growth; for (auto& f : ty->face_types_) { f.surface_tension_ = 0.5; f.adherence_strength_ = 5; f.repulsion_strength_ = 50; f.bending_modulus_ = 0.01; } ty->area_elasticity_modulus_ = 0.2; ty->angle_regularization_factor_ = 0.01; ty->surface_coupling_max_curvature_ = 1e30; return ty; };
    Mesh ico = icosphere(1);
    switch (t) {
        case 0: cs.push_back({translated(ico, ox, oy, oz), epi(30)}); break;
        case 1: cs.push_back({translated(ico, ox, oy, oz), epi(5)}); cs.push_back({translated(ico, ox + 2.0625, oy, oz), epi(5)}); break;
        case 5: { Mesh m0 = ico; unsigned a = m0.tri[0], b = m0.tri[1]; for (int k = 0; k < 3; k++) m0.pos[3*a+k] = m0.pos[3*b+k] + 0.25 * (m0.pos[3*a+k] - m0.pos[3*b+k]);   /* 0.25 is a power of two: the contracted edge is the same rounded object in every placement */ cs.push_back({translated(m0, ox, oy, oz), epi(5)}); cs.push_back({translated(ico, ox + 2.0625, oy, oz), epi(5)}); break; }
        case 2: { cs.push_back({translated(ico, ox, oy, oz), epi(5)}); auto ecm = make_cell_type(1, 1); ecm->face_types_[0].repulsion_strength_ = 50; ecm->face_types_[0].adherence_strength_ = 1; cs.push_back({translated(scaled(ico, 1.5, 1.5, 1.5), ox + 2.25, oy + 0.25, oz), ecm}); break; }
        case 3: { cs.push_back({translated(ico, ox, oy, oz), epi(5)}); auto nuc = make_cell_type(3, 1); nuc->bulk_modulus_ = 20; nuc->face_types_[0].surface_tension_ = 0.5; nuc->face_types_[0].repulsion_strength_ = 50; cs.push_back({translated(scaled(ico, 0.5, 0.5, 0.5), ox + 0.5, oy, oz), nuc}); break; }
        default: { cs.push_back({translated(ico, ox, oy, oz), epi(10)}); auto lum = make_cell_type(2, 1); lum->bulk_modulus_ = 20; lum->avg_growth_rate_ = 10; lum->face_types_[0].surface_tension_ = 0.5; lum->face_types_[0].repulsion_strength_ = 50; cs.push_back({translated(scaled(ico, 0.75, 0.75, 0.75), ox - 1.6875, oy + 0.125, oz), lum}); }
    }
    if (eps_node0 == 1) cs[0].mesh.pos[0] = std::nextafter(cs[0].mesh.pos[0], 1e300);
    if (eps_node0 == 2) for (auto& c : cs) for (size_t i = 0; i < c.mesh.pos.size(); i++) c.mesh.pos[i] = std::nextafter(c.mesh.pos[i], (i % 2) ? 1e300 : -1e300);   // every coordinate moved by one ulp, alternating directions: what a translation does to the roundings
    return cs;
}

struct Final { std::vector<std::vector<std::array<double, 3>>> pos; std::vector<std::vector<std::array<unsigned, 3>>> tri; std::vector<double> vol, pres; std::vector<unsigned> ids; bool threw = false; std::string what; };

static Final run(int tissue, const double tr[3], int N, int perturb) {
    Final F; global_simulation_parameters p = sc::make_sim_params(sw::scratch_root() + "/c14", 0.2); p.time_step_ = 2e-3; p.damping_coefficient_ = 2.0; p.sampling_period_ = 1e9; p.simulation_duration_ = 1e9; p.contact_cutoff_adhesion_ = 0.1; p.contact_cutoff_repulsion_ = 0.1;
    try { sw::World W(make_tissue(tissue, tr, perturb), p); for (int i = 0; i < N; i++) W.s->run_iteration();
        for (auto& c : W.cells()) { F.ids.push_back(c->get_id()); F.vol.push_back(c->get_volume()); F.pres.push_back(c->get_pressure()); F.pos.emplace_back(); F.tri.emplace_back();
            for (const node& n : c->node_lst_) F.pos.back().push_back(n.is_used_ ? std::array<double, 3>{n.pos_.dx() - tr[0], n.pos_.dy() - tr[1], n.pos_.dz() - tr[2]} : std::array<double, 3>{0, 0, 0});
            for (const face& f : c->face_lst_) if (f.is_used_) F.tri.back().push_back({f.n1_id_, f.n2_id_, f.n3_id_}); } }
    catch (std::exception& e) { F.threw = true; F.what = e.what(); }
    return F;
}
static bool same_structure(const Final& a, const Final& b) { if (a.threw != b.threw || a.ids != b.ids || a.tri != b.tri) return false; for (size_t i = 0; i < a.pos.size(); i++) if (a.pos[i].size() != b.pos[i].size()) return false; return true; }
static double max_dev(const Final& a, const Final& b) { double d = 0; for (size_t i = 0; i < a.pos.size(); i++) for (size_t j = 0; j < a.pos[i].size(); j++) for (int k = 0; k < 3; k++) d = std::max(d, std::fabs(a.pos[i][j][k] - b.pos[i][j][k])); return d; }

struct Out { std::string err; bool inconclusive = false; double dev = 0, sens = 0; long nodes = 0; };
static Out check(int tissue, int tri, int N) {
    Out o; const double zero[3] = {0, 0, 0}; char buf[400];
    Final ref = run(tissue, zero, N, 0), ref2 = run(tissue, zero, N, 0);
    if (!same_structure(ref, ref2) || max_dev(ref, ref2) != 0) { o.err = "INTERNAL the reference run is not reproducible"; return o; }
    Final per = run(tissue, zero, N, 1), per2 = run(tissue, zero, N, 2), tra = run(tissue, TR[tri], N, 0);
    if (ref.threw) { o.inconclusive = true; return o; }
    for (auto& v : ref.pos) o.nodes += (long)v.size();
    if (!same_structure(ref, per) || !same_structure(ref, per2)) { o.inconclusive = true; return o; }         // a 1-ulp change already alters the remeshing decisions: chaotic regime, not judged
    o.sens = std::max(max_dev(ref, per), max_dev(ref, per2));
    if (tra.threw) { o.err = "translated-run-failed-where-the-reference-run-succeeded: " + tra.what; return o; }
    if (tra.ids != ref.ids) { snprintf(buf, sizeof buf, "cell-count-or-ids-differ-after-translation: %zu vs %zu cells", tra.ids.size(), ref.ids.size()); o.err = buf; return o; }
    if (!same_structure(ref, tra)) { o.err = "mesh-connectivity-differs-after-translation"; return o; }
    o.dev = max_dev(ref, tra);
    const double tmag = std::max({std::fabs(TR[tri][0]), std::fabs(TR[tri][1]), std::fabs(TR[tri][2])}) + 4.0;
    const double ulp1 = 2.2e-16 * 4.0, ulpt = 2.2e-16 * tmag; const double amplification = std::max(1.0, o.sens / ulp1);
    const double tol = 1e-9 + 16.0 * amplification * ulpt * N;
    if (o.dev > tol) { snprintf(buf, sizeof buf, "node-positions-differ-after-translation: max deviation %.3g (tolerance %.3g; a 1-ulp perturbation of the input changes the result by %.3g)", o.dev, tol, o.sens); o.err = buf; return o; }
    for (size_t i = 0; i < ref.vol.size(); i++) { double rtol = 1e-9 + 64.0 * amplification * ulpt * N; if (std::fabs(tra.vol[i] - ref.vol[i]) > rtol * ref.vol[i]) { snprintf(buf, sizeof buf, "cell-volume-differs-after-translation: cell %zu %.17g vs %.17g", i, tra.vol[i], ref.vol[i]); o.err = buf; return o; }
        if (std::fabs(tra.pres[i] - ref.pres[i]) > rtol * 20 * 10 + rtol * std::fabs(ref.pres[i])) { snprintf(buf, sizeof buf, "cell-pressure-differs-after-translation: cell %zu %.17g vs %.17g", i, tra.pres[i], ref.pres[i]); o.err = buf; return o; } }
    return o;
}

// ---- a cell that grows and divides.  The interface triangulation of a division is a discrete algorithm whose outcome (which sample points are accepted, and even whether the
// division succeeds at this attempt or at the next one, five iterations later) is decided by the last bits of the coordinates, so the trajectories after a division are not
// comparable node by node: a translation legitimately re-rolls those decisions.  What does not depend on them, and is judged here:
//   * the translated cell divides too, at most DIV_SLACK division attempts later (an attempt fails cleanly for 10-30 % of the roundings on the unchanged tree);
//   * the cut goes through the same place of the cell: the volume fraction of the first daughter right after the division agrees within DIV_FRACTION_TOL.
static const int DIV_HORIZON = 75, DIV_SLACK = 8; static const double DIV_FRACTION_TOL = 0.1;
struct DivOut { int divided_at = -1; double fraction = 0; bool threw = false; std::string what; double pre_dev = 0; std::vector<std::array<double, 3>> pre; };
static DivOut run_division(const double tr[3], int horizon, bool early = false /* the cell is above its division volume from the start: it divides in iteration 0, before anything was refreshed or refined */) {
    using namespace sc; DivOut o; global_simulation_parameters p = make_sim_params(sw::scratch_root() + "/c14", 0.2); p.time_step_ = 2e-3; p.damping_coefficient_ = 2.0; p.sampling_period_ = 1e9; p.simulation_duration_ = 1e9; p.contact_cutoff_adhesion_ = 0.1; p.contact_cutoff_repulsion_ = 0.1;
    auto ty = make_cell_type(0, 3); ty->bulk_modulus_ = 20; ty->avg_growth_rate_ = 30; for (auto& f : ty->face_types_) { f.surface_tension_ = 0.5; f.adherence_strength_ = 5; f.repulsion_strength_ = 50; f.bending_modulus_ = 0.01; } ty->area_elasticity_modulus_ = 0.2;
    Mesh m = translated(scaled(transformed(icosphere(2), matmul(rot_x_51213(), rot_z_345()), {0, 0, 0}), 1.3, 1.0, 0.8), ORIGIN[0] + tr[0], ORIGIN[1] + tr[1], ORIGIN[2] + tr[2]);
    try { { cell_ptr probe = make_cell(m, 0, ty, true); ty->avg_division_vol_ = (early ? 0.9 : 1.004) * probe->get_volume(); ty->std_division_vol_ = 0; probe->clear_data(); }
        sw::World W({{m, ty}}, p);
        for (int i = 0; i < horizon; i++) { if (W.cells().size() == 1 && i % 5 == 0) { o.pre.clear(); for (const node& n : W.cells()[0]->node_lst_) if (n.is_used_) o.pre.push_back({n.pos_.dx() - tr[0], n.pos_.dy() - tr[1], n.pos_.dz() - tr[2]}); }
            W.s->run_iteration(); if (getenv("C14_DEBUG")) printf("it %d cells %zu V %.5f target %.5f divV %.5f\n", i, W.cells().size(), W.cells()[0]->get_volume(), W.cells()[0]->get_target_volume(), W.cells()[0]->get_division_volume());
            if (W.cells().size() >= 2) { o.divided_at = i; double v1 = W.cells()[0]->get_volume(), v2 = W.cells()[1]->get_volume(); if (W.cells()[0]->get_id() > W.cells()[1]->get_id()) std::swap(v1, v2); o.fraction = v1 / (v1 + v2); break; } } }
    catch (std::exception& e) { o.threw = true; o.what = e.what(); }
    return o;
}
static std::string check_division(int tri, std::string* note, bool early = false) {
    const double zero[3] = {0, 0, 0}; char buf[400]; DivOut ref = run_division(zero, DIV_HORIZON, early);
    if (ref.threw || ref.divided_at < 0 || ref.divided_at > DIV_HORIZON - 5 * DIV_SLACK - 5) { *note = "inconclusive: the reference cell does not divide early enough"; return ""; }
    DivOut tra = run_division(TR[tri], DIV_HORIZON, early);
    snprintf(buf, sizeof buf, "reference divides in iteration %d (first daughter gets %.4f of the volume), translated in iteration %d (%.4f)", ref.divided_at, ref.fraction, tra.divided_at, tra.fraction); *note = buf;
    if (tra.threw) return "translated-run-failed-where-the-reference-run-succeeded: " + tra.what;
    if (tra.divided_at < 0 || tra.divided_at > ref.divided_at + 5 * DIV_SLACK) { snprintf(buf, sizeof buf, "translated-cell-does-not-divide: the reference cell divides in iteration %d, the translated one not within %d further attempts", ref.divided_at, DIV_SLACK); return buf; }
    if (tra.divided_at < ref.divided_at - 5 * DIV_SLACK) return "translated-cell-divides-much-earlier-than-the-reference";
    if (std::fabs(tra.fraction - ref.fraction) > DIV_FRACTION_TOL) { snprintf(buf, sizeof buf, "division-plane-depends-on-placement: the first daughter receives %.4f of the volume in the reference run and %.4f in the translated run", ref.fraction, tra.fraction); return buf; }
    return "";
}

static void explore(Result& R) {
    const bool th = R.args.thorough(); long cases = 0, inconcl = 0, iters = 0; double worst = 0;
    std::vector<int> Ns = th ? std::vector<int>{10, 50, 200} : std::vector<int>{10, 40};
    for (int t = 0; t < 6; t++) for (int tr = 0; tr < NTR; tr++) for (int N : (tr == 7 /* contact at the origin */ && (t == 1 || t == 2) && !th ? std::vector<int>{10, 40, 200} : Ns)) {   /* the contact-at-the-origin placement of the two-cell tissues also with the long run in the quick tier */ if (R.out_of_time(0.9)) { R.cap("deadline"); goto done; }
        progress("tissue=" + std::to_string(t) + "\ntr=" + std::to_string(tr) + "\nN=" + std::to_string(N) + "\n");
        Out o = check(t, tr, N); cases++; iters += 6L * N;
        if (o.err.rfind("INTERNAL", 0) == 0) { R.internal_error = o.err; return; }
        if (o.inconclusive) { inconcl++; R.tables["inconclusive_chaotic_or_failed_reference"][std::string(TISSUES[t]) + " N=" + std::to_string(N)]++; continue; }
        worst = std::max(worst, o.dev);
        if (!o.err.empty()) R.violation(clause_of(o.err) + "|tissue=" + std::to_string(t), std::string(TISSUES[t]) + ", translation (" + jnum(TR[tr][0]) + "," + jnum(TR[tr][1]) + "," + jnum(TR[tr][2]) + "), " + std::to_string(N) + " iterations: " + o.err, "tissue=" + std::to_string(t) + "\ntr=" + std::to_string(tr) + "\nN=" + std::to_string(N) + "\n");
        R.sample("{\"tissue\":\"" + std::string(TISSUES[t]) + "\",\"translation\":[" + jnum(TR[tr][0]) + "," + jnum(TR[tr][1]) + "," + jnum(TR[tr][2]) + "],\"iterations\":" + std::to_string(N) + ",\"max_deviation\":" + jnum(o.dev) + ",\"one_ulp_sensitivity\":" + jnum(o.sens) + "}", 8); }
done:
    { long div_cases = 0, div_judged = 0; for (int tr = 0; tr < NTR; tr++) { if (R.out_of_time(0.95)) { R.cap("deadline (division block)"); break; } progress("mode=division\ntr=" + std::to_string(tr) + "\n"); for (int early = 0; early < 2; early++) { std::string note; std::string e = check_division(tr, &note, early != 0); div_cases++; cases++; iters += 2L * DIV_HORIZON; if (note.rfind("inconclusive", 0) == 0) { inconcl++; continue; } div_judged++;
        R.sample("{\"tissue\":\"one growing cell that divides\",\"translation\":[" + jnum(TR[tr][0]) + "," + jnum(TR[tr][1]) + "," + jnum(TR[tr][2]) + "],\"observed\":\"" + note + "\"}", 14);
        if (!e.empty()) R.violation(clause_of(e) + "|division", "one growing, dividing cell, translation (" + jnum(TR[tr][0]) + "," + jnum(TR[tr][1]) + "," + jnum(TR[tr][2]) + "): " + e + " [" + note + "]", "mode=division\ntr=" + std::to_string(tr) + "\nearly=" + std::to_string(early) + "\n"); } }
      R["division_cases"] = div_cases; R["division_cases_judged"] = div_judged; if (!div_judged && R.violations.empty() && R.exhaustive) R.internal_error = "no division case could be judged (vacuous)"; }
    sw::cleanup_scratch();
    R["evaluations"] = cases; R["states"] = cases; R["transitions"] = iters; R["distinct_nontrivial"] = cases - inconcl; R["traces_validated_against_impl"] = cases - inconcl; R["inconclusive_cases"] = inconcl; R.reals["worst_position_deviation"] = worst;
    if (cases - inconcl < 2 && R.exhaustive) R.internal_error = "almost every case was inconclusive (vacuous)";
    R.strings["rule"] = "a case = (tissue, dyadic translation, number of iterations); five real solver runs per case: reference, reference again (reproducibility), reference with one input coordinate moved by 1 ulp and with every input coordinate moved by 1 ulp (sensitivity yardsticks), translated; the translated result minus the translation must agree with the reference in cell ids, connectivity, node positions, volumes and pressures; cases where the 1-ulp run already changes connectivity are counted as inconclusive";
    R.assumptions = {"division block: trajectories after a division are not compared node by node (the interface triangulation re-rolls with the last bits of the coordinates, and an attempt fails cleanly for 10-30 % of them); judged: the translated cell divides within 8 further attempts and the first daughter receives the same fraction of the volume within 0.1", "translations are dyadic so that translated inputs are exact; tolerance = 1e-9 + 16 * (sensitivity/ulp) * ulp(|t|) * iterations", "tissue placed at (2.5,1.25,0.75) so that the origin is not special; one translation moves it across the origin, one by about one voxel"};
}
static int replay(const Replay& rp, Result& R) { if (rp.geti("diag", 0)) { const double zero[3] = {0, 0, 0}; for (int N = 1; N <= (int)rp.geti("N"); N++) { Final a = run((int)rp.geti("tissue"), zero, N, 0), b = run((int)rp.geti("tissue"), TR[rp.geti("tr")], N, 0); printf("N=%d cells %zu/%zu", N, a.ids.size(), b.ids.size()); for (size_t i = 0; i < a.tri.size() && i < b.tri.size(); i++) printf("  cell%zu tris %zu/%zu nodes %zu/%zu same_tris=%d", i, a.tri[i].size(), b.tri[i].size(), a.pos[i].size(), b.pos[i].size(), (int)(a.tri[i] == b.tri[i])); printf(" dev=%.3g\n", same_structure(a, b) ? max_dev(a, b) : -1.0); } return 0; }
    if (rp.get("mode") == "division") { std::string note, e = check_division((int)rp.geti("tr"), &note, rp.geti("early", 0) != 0), note2, e2 = check_division((int)rp.geti("tr"), &note2, rp.geti("early", 0) != 0); sw::cleanup_scratch(); if (e != e2) { printf("replay diverged\n"); return 0; } printf("%s\n%s\n", note.c_str(), e.c_str()); if (!e.empty()) { R.violation(clause_of(e), e, ""); return 1; } return 0; }
    Out o = check((int)rp.geti("tissue"), (int)rp.geti("tr"), (int)rp.geti("N")); sw::cleanup_scratch(); printf("deviation %.3g sensitivity %.3g inconclusive %d\n%s\n", o.dev, o.sens, (int)o.inconclusive, o.err.c_str()); if (!o.err.empty()) { R.violation(clause_of(o.err), o.err, ""); return 1; } return 0; }
int main(int argc, char** argv) { return run_main(argc, argv, "C14", explore, replay); }
