// C19 — output files and statistics: complete, well formed, truthful (engine E1 over real solver::run, hook H6).
// Lattice (dt, S/dt, T/S) with non-commensurable ratios x population histories (steady / division / removal / extinction)
// x {file, in-memory} statistics; the H6 hook records the population at every save / statistics point.
#include "solver_world.hpp"
#include "vtk_tok.hpp"
#include <filesystem>
using namespace vf;
namespace fs = std::filesystem;

struct Case { double dt, s_over_dt, t_over_s; int pop; int in_memory; };     // pop: 0 steady, 1 division at iteration 5, 2 one removal at iteration 3, 3 extinction at iteration 7, 4 division then removal
static const char* pop_name[] = {"steady", "division", "one_removed", "all_removed", "division_then_removal", "static_neighbour_remeshed_in_the_first_iteration", "only_a_static_cell_left_after_a_removal"};
static std::string case_json(const Case& c) { return "{\"dt\":" + jnum(c.dt) + ",\"S/dt\":" + jnum(c.s_over_dt) + ",\"T/S\":" + jnum(c.t_over_s) + ",\"population\":\"" + pop_name[c.pop] + "\",\"statistics\":\"" + (c.in_memory ? "in-memory" : "file") + "\"}"; }
static std::string case_text(const Case& c) { return dhex(c.dt) + " " + dhex(c.s_over_dt) + " " + dhex(c.t_over_s) + " " + std::to_string(c.pop) + " " + std::to_string(c.in_memory); }
static Case case_parse(const std::string& s) { std::istringstream i(s); std::string a, b, c; Case k; i >> a >> b >> c >> k.pop >> k.in_memory; k.dt = strtod(a.c_str(), 0); k.s_over_dt = strtod(b.c_str(), 0); k.t_over_s = strtod(c.c_str(), 0); return k; }

static std::string g_obs;   // observable outputs of the current case (statistics without the wall-clock column, mesh files)
struct SaveRec { unsigned file_number; std::vector<unsigned> ids; std::vector<size_t> nodes; std::vector<int> types; std::vector<size_t> faces; };
struct StatRow { unsigned iteration; std::string id, type, area, volume, target_volume, pressure; };

static std::vector<std::string> split(const std::string& s, char sep) { std::vector<std::string> o; std::string cur; for (char ch : s) { if (ch == sep) { o.push_back(cur); cur.clear(); } else cur += ch; } o.push_back(cur); return o; }

static long g_static_with_free_slots_at_save = 0;
struct StopRun {};
static std::string run_case(const Case& cs, long* iterations_out = nullptr, long* files_out = nullptr, long* rows_out = nullptr) {
    const double S = cs.s_over_dt * cs.dt, T = cs.t_over_s * S; char buf[400];
    sc::Mesh ico = sc::icosphere(1); std::vector<sw::CellSpec> cells;
    for (int i = 0; i < 2; i++) { auto ty = sc::make_cell_type(i == 0 ? 0 : (cs.pop == 6 ? 1 /* an ECM cell: once the epithelial cell is gone no cell of the population can move */ : 2), 3); ty->bulk_modulus_ = 1e-9; ty->mass_density_ = 1e6; for (auto& f : ty->face_types_) { f.surface_tension_ = 0; f.bending_modulus_ = 0; } ty->min_vol_ = 0; sc::Mesh mi = sc::translated(ico, 3.0 * i, 0, 0);
        if (i == 1 && (cs.pop == 0 || cs.pop == 1)) { /* an input point no triangle uses, in the middle of the point list: a free node slot with no free face slot, which every file must compact away */ sc::Mesh u; u.name = mi.name; for (size_t k = 0; k < mi.nv(); k++) { if (k == 3) { u.pos.push_back(3.1); u.pos.push_back(0.2); u.pos.push_back(0.05); } for (int j = 0; j < 3; j++) u.pos.push_back(mi.pos[3*k+j]); } for (unsigned t : mi.tri) u.tri.push_back(t >= 3 ? t + 1 : t); mi = u; }
        cells.push_back({mi, ty}); }
    if (cs.pop == 5) { // a static (ECM) neighbour whose input mesh has edges shorter than l_min: the refiner collapses them in iteration 0 and the cell carries free slots from then on
        auto ty = sc::make_cell_type(1, 1); ty->mass_density_ = 1e6; ty->min_vol_ = 0; sc::Mesh m = sc::translated(sc::scaled(ico, 0.5, 0.5, 0.5), 0, 3.0, 0);   /* edges of 0.27-0.31 against l_min = 0.3 */ cells.push_back({m, ty}); }
    std::string out = sw::scratch_root() + "/c19";
    global_simulation_parameters p = sc::make_sim_params(out, 0.3); p.time_step_ = cs.dt; p.sampling_period_ = S; p.simulation_duration_ = T; p.damping_coefficient_ = 1.0;
    std::vector<SaveRec> saves; std::vector<StatRow> stats; long iterations = 0; double expected_time = 0; std::string err; std::string stat_text;
    try {
        sw::World W(cells, p, cs.in_memory != 0);
        sw::phase_cb() = [&](solver* s, const char* ph) {
            if (!strcmp(ph, "begin")) { unsigned it = s->iteration_; auto& L = s->cell_lst_;
                auto vanish = [&](cell& c) { double v = c.compute_volume(); c.cell_type_ = std::make_shared<cell_type_parameters>(*c.cell_type_); c.cell_type_->min_vol_ = 0.6 * v; sw::scale_cell(c, 0.8); };
                if ((cs.pop == 1 || cs.pop == 4) && it == 5 && !L.empty()) L[0]->division_volume_ = 0.9 * L[0]->compute_volume();
                if ((cs.pop == 2 || cs.pop == 6) && it == 3 && !L.empty()) vanish(*L[0]);
                if (cs.pop == 3 && it == 7) for (auto& c : L) vanish(*c);
                if (cs.pop == 4 && it == 12 && L.size() > 1) vanish(*L[1]);
                if (it == 6) for (auto& c : L) c->division_volume_ = std::numeric_limits<double>::infinity(); }
            else if (!strcmp(ph, "save")) { SaveRec r; r.file_number = s->file_number_; for (auto& c : s->cell_lst_) { r.ids.push_back(c->get_id()); r.nodes.push_back(c->get_nb_of_nodes()); r.faces.push_back(c->get_nb_of_faces()); r.types.push_back(c->get_cell_type()->global_type_id_); if (c->is_static() && c->get_nb_of_nodes() < c->get_node_lst().size()) g_static_with_free_slots_at_save++; } saves.push_back(r); }
            else if (!strcmp(ph, "stats") || !strcmp(ph, "final_stats")) { bool recorded = !strcmp(ph, "final_stats") || s->iteration_ % 50 == 0; if (recorded) for (auto& c : s->cell_lst_) { StatRow r; r.iteration = s->iteration_; r.id = format_number(c->get_id(), "%d"); r.type = format_number((int)c->get_cell_type()->global_type_id_, "%d"); r.area = format_number(c->get_area(), "%.3e"); r.volume = format_number(c->get_volume(), "%.3e"); r.target_volume = format_number(c->get_target_volume(), "%.3e"); r.pressure = format_number(c->get_pressure(), "%.3e"); stats.push_back(r); } }
            else if (!strcmp(ph, "end")) { iterations++; expected_time += cs.dt; double t = s->time_integrator_ptr_->get_simulation_time(); if (t != expected_time && err.empty()) { char b[200]; snprintf(b, sizeof b, "simulated-time-is-not-the-sum-of-the-time-steps: after %ld iterations %.17g expected %.17g", iterations, t, expected_time); err = b; } if (!err.empty()) throw StopRun();   /* a clock that does not advance never reaches T */ }
        };
        try { W.s->run(); } catch (StopRun&) {}
        if (cs.in_memory) stat_text = W.s->get_simulation_statistics();
        // the loop must stop exactly when the accumulated time reaches T (or the population is empty)
        if (err.empty()) { double t = 0; long n = 0; while (t < T) { t += cs.dt; n++; } bool extinct = W.cells().empty();
            if (!extinct && iterations != n) { snprintf(buf, sizeof buf, "loop-did-not-stop-when-T-was-reached: %ld iterations, expected %ld", iterations, n); err = buf; }
            if (extinct && iterations > n) { snprintf(buf, sizeof buf, "loop-ran-past-T: %ld iterations, at most %ld", iterations, n); err = buf; } }
    } catch (std::exception& e) { err = std::string("run-threw: ") + e.what(); }
    if (iterations_out) *iterations_out += iterations;
    if (!err.empty()) return err;
    // ---- mesh files: pairs numbered 1..K without gaps
    std::set<unsigned> cell_nums, face_nums;
    for (auto& de : fs::directory_iterator(out + "/cell_data")) { unsigned k; if (sscanf(de.path().filename().c_str(), "result_%u.vtk", &k) == 1) cell_nums.insert(k); else return "unexpected-file-in-cell_data: " + de.path().filename().string(); }
    for (auto& de : fs::directory_iterator(out + "/face_data")) { unsigned k; if (sscanf(de.path().filename().c_str(), "result_%u.vtk", &k) == 1) face_nums.insert(k); else return "unexpected-file-in-face_data: " + de.path().filename().string(); }
    if (cell_nums != face_nums) return "cell-data-and-face-data-files-not-in-pairs";
    const unsigned K = (unsigned)cell_nums.size(); if (files_out) *files_out += K;
    { unsigned expect = 1; for (unsigned k : cell_nums) { if (k != expect) { snprintf(buf, sizeof buf, "file-numbering-has-a-gap: result_%u.vtk follows result_%u.vtk (%u files)", k, expect - 1, K); return buf; } expect++; } }
    if (saves.size() != K) { snprintf(buf, sizeof buf, "number-of-files-differs-from-number-of-saves: %u files, %zu save points", K, saves.size()); return buf; }
    // K within one of T/S + 1, unless the population died out earlier
    { bool extinct = cs.pop == 3; double ideal = cs.t_over_s + 1; if (!extinct && std::fabs((double)K - ideal) > 1.0 + 1e-9) { snprintf(buf, sizeof buf, "file-count-not-within-one-of-T/S+1: %u files, T/S+1 = %.6g", K, ideal); return buf; } }
    for (unsigned k = 1; k <= K; k++) { const SaveRec& r = saves[k - 1]; if (r.file_number != k) { snprintf(buf, sizeof buf, "save-point-number-mismatch: %u-th save wrote file %u", k, r.file_number); return buf; }
        vtk::Parsed P; std::string e = vtk::tokenize(out + "/cell_data/result_" + std::to_string(k) + ".vtk", P, true); if (!e.empty()) return "cell-data-file-" + std::to_string(k) + "-malformed-" + e;
        if (P.cells.size() != r.ids.size()) { snprintf(buf, sizeof buf, "file-%u-describes-%zu-cells-but-%zu-were-alive", k, P.cells.size(), r.ids.size()); return buf; }
        size_t tot = 0; for (size_t n : r.nodes) tot += n; if (P.pts.size() != 3 * tot) { snprintf(buf, sizeof buf, "file-%u-has-%zu-points-but-the-population-had-%zu-nodes", k, P.pts.size() / 3, tot); return buf; }
        auto& idf = P.fields["cell_id"]; auto& tyf = P.fields["cell_type_id"]; if (idf.size() != r.ids.size() || tyf.size() != r.ids.size()) return "file-" + std::to_string(k) + "-cell_id-or-cell_type_id-array-missing";
        for (size_t i = 0; i < r.ids.size(); i++) if (atol(idf[i].c_str()) != (long)r.ids[i] || atol(tyf[i].c_str()) != r.types[i]) { snprintf(buf, sizeof buf, "file-%u-cell-%zu-id-or-type-differs: id %s type %s expected %u %d", k, i, idf[i].c_str(), tyf[i].c_str(), r.ids[i], r.types[i]); return buf; }
        vtk::Parsed PF; std::string e2 = vtk::tokenize(out + "/face_data/result_" + std::to_string(k) + ".vtk", PF, false); if (!e2.empty()) return "face-data-file-" + std::to_string(k) + "-malformed-" + e2;
        // the face-data file names, for every triangle, the cell that owns it: by its persistent id, in the order of the population
        { size_t totf = 0; for (size_t n : r.faces) totf += n; if (PF.cells.size() != totf) { snprintf(buf, sizeof buf, "face-file-%u-describes-%zu-triangles-but-the-population-had-%zu", k, PF.cells.size(), totf); return buf; }
          std::ifstream ff(out + "/face_data/result_" + std::to_string(k) + ".vtk"); std::vector<std::string> tk; std::string w; while (ff >> w) tk.push_back(w); size_t at = 0; while (at < tk.size() && tk[at] != "face_cell_id") at++;
          if (at + 3 + totf > tk.size()) return "face-file-" + std::to_string(k) + "-face_cell_id-array-missing-or-short"; if (atol(tk[at + 2].c_str()) != (long)totf) { snprintf(buf, sizeof buf, "face-file-%u-face_cell_id-array-declares-%s-values-for-%zu-triangles", k, tk[at + 2].c_str(), totf); return buf; }
          size_t j = at + 4; for (size_t ci = 0; ci < r.ids.size(); ci++) for (size_t fi = 0; fi < r.faces[ci]; fi++, j++) if (atol(tk[j].c_str()) != (long)r.ids[ci]) { snprintf(buf, sizeof buf, "face-file-%u-attributes-a-triangle-of-cell-%u-to-cell-%s: triangle %zu of the cell at place %zu (alive: %zu cells)", k, r.ids[ci], tk[j].c_str(), fi, ci, r.ids.size()); return buf; } } }
    // ---- statistics table
    if (!cs.in_memory) { std::ifstream f(out + "/simulation_statistics.csv"); if (!f) return "statistics-file-missing"; std::stringstream ss; ss << f.rdbuf(); stat_text = ss.str(); }
    std::vector<std::string> lines = split(stat_text, '\n');
    for (auto& l : lines) { auto f = split(l, ','); for (size_t i = 0; i < f.size(); i++) if (i != 1) g_obs += f[i] + ","; g_obs += "\n"; }
    for (unsigned k = 1; k <= K; k++) { std::ifstream f(out + "/cell_data/result_" + std::to_string(k) + ".vtk"); std::stringstream ss; ss << f.rdbuf(); g_obs += ss.str(); } if (!lines.empty() && lines.back().empty()) lines.pop_back();
    if (lines.empty()) return "statistics-empty"; std::vector<std::string> header = split(lines[0], ',');
    std::map<std::string, int> col; for (size_t i = 0; i < header.size(); i++) col[header[i]] = (int)i;
    for (const char* need : {"iteration", "simulation_time", "cell_id", "type_id", "area", "volume", "target_volume", "pressure"}) if (!col.count(need)) return std::string("statistics-header-lacks-column: ") + need;
    if (lines.size() - 1 != stats.size()) { snprintf(buf, sizeof buf, "statistics-row-count-differs: %zu rows, %zu expected (one per cell alive at every 50th iteration and at the end)", lines.size() - 1, stats.size()); return buf; }
    if (rows_out) *rows_out += (long)stats.size();
    for (size_t i = 0; i < stats.size(); i++) { std::vector<std::string> f = split(lines[i + 1], ','); if (f.size() != header.size()) { snprintf(buf, sizeof buf, "statistics-row-%zu-has-%zu-fields-but-header-has-%zu", i, f.size(), header.size()); return buf; }
        if (f[0] == "iteration") return "statistics-header-repeated"; const StatRow& r = stats[i];
        if (atol(f[col["iteration"]].c_str()) != (long)r.iteration) { snprintf(buf, sizeof buf, "statistics-row-%zu-iteration-differs: %s expected %u", i, f[col["iteration"]].c_str(), r.iteration); return buf; }
        struct { const char* name; const std::string& v; } chk[] = {{"cell_id", r.id}, {"type_id", r.type}, {"area", r.area}, {"volume", r.volume}, {"target_volume", r.target_volume}, {"pressure", r.pressure}};
        for (auto& c : chk) if (f[col[c.name]] != c.v) { snprintf(buf, sizeof buf, "statistics-row-%zu-%s-differs-from-cell-state: printed %s, cell had %s", i, c.name, f[col[c.name]].c_str(), c.v.c_str()); return buf; } }
    return "";
}

static void explore(Result& R) {
    const bool th = R.args.thorough(); long cases = 0, iters = 0, files = 0, rows = 0, unit = 0;
    std::vector<double> dts = {0.1, 0.01, 0.3, 0.7, 1e-3, 1e-7, 1e-11, 0.125};   /* incl. a step far below the absolute tolerances in the code, and a binary-exact step (accumulated time lands exactly on the duration) */ std::vector<double> sdt = {1, 1.5, 2, 7.0 / 3.0, 3, 10}; std::vector<double> ts = {0.5, 1, 2.5, 3, 5, 7};   /* 10 x 5: a run of exactly 50 iterations (the statistics cadence) */
    if (th) { sdt.push_back(25); ts.push_back(10); dts.push_back(0.07); }
    for (double dt : dts) for (double a : sdt) for (double b : ts) for (int pop = 0; pop < 7; pop++) for (int mem = 0; mem < 2; mem++) {
        if (!th && mem == 1 && pop != 0 && pop != 3) continue;
        if (!R.args.mine(unit++)) continue;
        if (R.out_of_time(0.9)) { R.cap("deadline"); goto done; }
        Case c{dt, a, b, pop, mem}; cases++; g_obs.clear(); const long files_before = files; std::string e = run_case(c, &iters, &files, &rows); R.mix(g_obs + e); if (files > files_before) R.distinct_case(g_obs);
        if (!e.empty()) R.violation(clause_of(e).substr(0, 60) + "|" + pop_name[pop], case_json(c) + ": " + e, "case=" + case_text(c) + "\n");
        if (cases % 150 == 1) R.sample(case_json(c)); }
done:
    sw::cleanup_scratch();
    R["evaluations"] = cases; R["states"] = cases; R["transitions"] = iters; R["distinct_nontrivial"] = cases; R["traces_validated_against_impl"] = cases; R["solver_iterations"] = iters; R["mesh_file_pairs_checked"] = files; R["saves_with_a_static_cell_carrying_free_slots"] = g_static_with_free_slots_at_save; if (!g_static_with_free_slots_at_save && R.args.nshards == 1 && R.violations.empty()) R.internal_error = "no static cell ever carried free slots at a save (vacuous)"; R["statistics_rows_checked"] = rows;
    R.strings["rule"] = "distinct_nontrivial = number of DISTINCT observed outputs (hash of everything the run wrote and reported) among cases that wrote at least one mesh file pair; a case = (dt, S/dt, T/S, population history, statistics sink); the real solver::run is executed in a private folder with quiescent physics and population events injected through the H6 'begin' hook (division at iteration 5, removal at 3 / 12, extinction at 7); the hook records the population at every save and statistics point; afterwards the folder contents, every file (independent tokenizer) and every statistics row are compared with the records";
    R.assumptions = {"physics is quiescent (zero tensions, negligible bulk modulus, heavy nodes) so that every dt of the lattice is stable; population events are injected, not grown", "wall-clock column of the statistics is ignored", "K within one of T/S+1 is not demanded of runs that end by extinction"};
}
static int replay(const Replay& rp, Result& R) { Case c = case_parse(rp.get("case")); std::string e1 = run_case(c), e2 = run_case(c); sw::cleanup_scratch(); if (e1 != e2) { printf("replay diverged: %s / %s\n", e1.c_str(), e2.c_str()); return 0; } printf("%s\n%s\n", case_json(c).c_str(), e1.c_str()); if (!e1.empty()) { R.violation(clause_of(e1), e1, ""); return 1; } return 0; }
int main(int argc, char** argv) { return run_main(argc, argv, "C19", explore, replay); }
