// C07 — contact forces are reciprocal, short-ranged and push overlapping cells apart (engine E2, hook H1; 3 builds).
// (1) single interactions: every ordered pair of cell types x signed penetration depths x position over the triangle (interior / edge /
//     vertex) x strength sets x cut-off pairs, through the model's own narrow-phase routine, force increments read back;
// (2) whole tissues (lattice of two-cell placements): net contact force zero, nothing between far cells;
// (3) single (concave) cells whose own parts are within the cut-off: no contact force, no coupling.
#include "contact_common.hpp"
#include "local_mesh_refiner.hpp"
using namespace vf; using namespace cx;

struct Case { int ta, tb; int depth; int base; int strength; int cut; int face; int meshb; };
static const double DEPTH[7] = {-0.9, -0.4, -0.1, 0.1, 0.4, 0.9, 1.1};
static const double CADH[2] = {0.2, 0.1}, CREP[2] = {0.1, 0.2};
static const char* base_name[] = {"interior", "edge", "vertex"};
static std::string case_text(const Case& c) { std::ostringstream o; o << c.ta << " " << c.tb << " " << c.depth << " " << c.base << " " << c.strength << " " << c.cut << " " << c.face << " " << c.meshb; return o.str(); }
static std::string case_json(const Case& c) { std::ostringstream o; o << "{\"node_cell_type\":" << c.ta << ",\"face_cell_type\":" << c.tb << ",\"signed_distance_in_relevant_cutoffs\":" << DEPTH[c.depth] << ",\"above\":\"" << base_name[c.base] << "\",\"strength_set\":" << c.strength << ",\"cutoff_adhesion\":" << CADH[c.cut] << ",\"cutoff_repulsion\":" << CREP[c.cut] << ",\"face\":" << c.face << ",\"face_cell_mesh\":" << c.meshb << "}"; return o.str(); }

static cell_type_param_ptr make_type(short g, int strength) { auto t = sc::make_cell_type(g, 3); t->surface_coupling_max_curvature_ = 1e30; double s[3][3] = {{0, 0, 0}, {1, 1, 1}, {0.5, 1, 2}}; for (int i = 0; i < 3; i++) { t->face_types_[i].repulsion_strength_ = s[strength][i]; t->face_types_[i].adherence_strength_ = s[strength][(i + 1) % 3]; } return t; }

struct Stat { long forces = 0, couplings = 0, nothing = 0, prefiltered = 0, forbidden_forces = 0; };

// the forbidden side of a face for a node: inside an ordinary cell (behind the normal); for an epithelial node facing an ECM face and for a
// nucleus node facing an epithelial face it is the outside (in front of the normal)
static bool forbidden_is_positive_side(int ta, int tb) { return (ta == 0 && tb == 1) || (ta == 3 && tb == 0); }

struct Probe { vec3 Fn; bool coupled = false; bool ran = false; };
static std::string run_case(const Case& cs, Stat* st = nullptr, const double* cut_override = nullptr, Probe* probe = nullptr) {
    char buf[500]; const double cadh = cut_override ? cut_override[0] : CADH[cs.cut], crep = cut_override ? cut_override[1] : CREP[cs.cut], cmax = std::max(cadh, crep);
    sc::Mesh mb = cs.meshb == 0 ? sc::translated(sc::cube12(), -0.5, -0.5, -0.5) : sc::icosphere(1);
    cell_ptr B = sc::make_cell(mb, 1, make_type((short)cs.tb, cs.strength), true); for (unsigned i = 0; i < B->face_lst_.size(); i++) B->face_lst_[i].type_id_ = i % 3;
    B->update_all_face_normals_and_areas();
    face& f = B->face_lst_[cs.face]; const vec3 a = B->node_lst_[f.n1_id_].pos_, b = B->node_lst_[f.n2_id_].pos_, c = B->node_lst_[f.n3_id_].pos_; const vec3 nf = f.normal_;
    vec3 base = cs.base == 0 ? (a + b + c) / 3. : cs.base == 1 ? (a + b) * 0.5 : a;
    // the relevant cut-off: repulsion on the forbidden side, adhesion on the allowed side
    const bool pos_forbidden = forbidden_is_positive_side(cs.ta, cs.tb); const double s = DEPTH[cs.depth]; const bool on_forbidden = pos_forbidden ? (s > 0) : (s < 0);
    const double rel_cut = cut_override ? cut_override[2] /* the placement of the node is that of the original case */ : (on_forbidden ? crep : cadh); const vec3 p = base + nf * (s * rel_cut);
    // cell A: a small tetrahedron whose node 0 sits at p and whose body extends away from the face on p's side
    const double sgn = s > 0 ? 1.0 : -1.0; vec3 u = std::fabs(nf.dx()) < 0.9 ? vec3(1, 0, 0).cross(nf).normalize() : vec3(0, 1, 0).cross(nf).normalize(); vec3 v = nf.cross(u);
    const double h = 0.3; vec3 q1 = p + nf * (sgn * h) + u * (0.2), q2 = p + nf * (sgn * h) + u * (-0.1) + v * 0.17, q3 = p + nf * (sgn * h) + u * (-0.1) + v * (-0.17);
    sc::Mesh ma; ma.pos = {p.dx(), p.dy(), p.dz(), q1.dx(), q1.dy(), q1.dz(), q2.dx(), q2.dy(), q2.dz(), q3.dx(), q3.dy(), q3.dz()}; ma.tri = {0, 1, 2, 0, 2, 3, 0, 3, 1, 1, 3, 2};
    cell_ptr A = sc::make_cell(ma, 0, make_type((short)cs.ta, cs.strength), true);
    std::vector<cell_ptr> cells = {A, B}; prepare(cells);
    node& n0 = A->node_lst_[0];
    // the node's normal faces the triangle when the body of A is on the far side of the node
    global_simulation_parameters sp = sc::make_sim_params("unused", 0.3); sp.contact_cutoff_adhesion_ = cadh; sp.contact_cutoff_repulsion_ = crep; Model model(sp);
    std::string err;
    if (!node_prefilter(*A, n0) || !pair_prefilter(n0, f)) { if (st) st->prefiltered++; A->clear_data(); B->clear_data(); return ""; }
    zero_forces(cells);
    narrow(model, A, B, n0, &f);
    const long double d2 = dist2_point_triangle(p, a, b, c); const double d = (double)sqrtl(d2);
    vec3 Fn = n0.force_, Ff = B->node_lst_[f.n1_id_].force_ + B->node_lst_[f.n2_id_].force_ + B->node_lst_[f.n3_id_].force_;
    // nothing else touched
    for (unsigned i = 1; i < A->node_lst_.size(); i++) if (A->node_lst_[i].force_.norm() != 0) err = "interaction-applied-force-to-an-uninvolved-node: node cell";
    for (unsigned i = 0; i < B->node_lst_.size(); i++) if (i != f.n1_id_ && i != f.n2_id_ && i != f.n3_id_ && B->node_lst_[i].force_.norm() != 0) err = "interaction-applied-force-to-an-uninvolved-node: face cell";
    bool coupled = false; double coupled_dist = 0;
#if CONTACT_MODEL_INDEX == 1
    if (n0.coupled_node_.has_value()) { coupled = true; auto [ci, ni] = n0.coupled_node_.value(); if (ci != 1 || ni >= B->node_lst_.size()) err = "coupling-designates-wrong-cell-or-node"; else coupled_dist = (B->node_lst_[ni].pos_ - p).norm(); }
#elif CONTACT_MODEL_INDEX == 2
    if (!n0.coupled_nodes_map_.empty()) { coupled = true; auto it = n0.coupled_nodes_map_.begin(); if (it->first != 1 || it->second.first >= B->node_lst_.size()) err = "coupling-designates-wrong-cell-or-node"; else coupled_dist = (B->node_lst_[it->second.first].pos_ - p).norm(); }
#endif
    if (probe) { probe->Fn = Fn; probe->coupled = coupled; probe->ran = true; A->clear_data(); B->clear_data(); return ""; }
    const double fmag = Fn.norm();
    if (st) { if (fmag > 0) st->forces++; else if (coupled) st->couplings++; else st->nothing++; }
    if (err.empty() && fmag > 0) {
        vec3 sum = Fn + Ff; if (sum.norm() > 1e-12 * fmag) { snprintf(buf, sizeof buf, "contact-force-not-reciprocal: force on node (%.9g,%.9g,%.9g), sum on the triangle (%.9g,%.9g,%.9g)", Fn.dx(), Fn.dy(), Fn.dz(), Ff.dx(), Ff.dy(), Ff.dz()); err = buf; } }
    if (err.empty() && fmag == 0 && Ff.norm() != 0) err = "contact-force-not-reciprocal: triangle loaded, node not";
    // range
    const double range_cut = (CONTACT_MODEL_INDEX == 0) ? rel_cut : cmax;
    if (err.empty() && d > range_cut * (1 + 1e-9) && fmag > 0) { snprintf(buf, sizeof buf, "contact-force-beyond-the-cutoff: distance %.9g cut-off %.9g |F| = %.9g", d, range_cut, fmag); err = buf; }
    if (err.empty() && coupled && coupled_dist > cadh * (1 + 1e-9)) { snprintf(buf, sizeof buf, "coupling-beyond-the-adhesion-cutoff: node distance %.9g cut-off %.9g", coupled_dist, cadh); err = buf; }
    if (err.empty() && coupled && !(cs.ta == 0 && cs.tb == 0)) err = "coupling-between-non-epithelial-cells";
    // direction on the forbidden side
    const vec3 cpa_to_node = nf * (s * rel_cut);
    if (err.empty() && on_forbidden && fmag > 0) { if (st) st->forbidden_forces++;
        if (!(Fn.dot(cpa_to_node * -1.0) > 0) || !(Ff.dot(cpa_to_node) > 0)) { snprintf(buf, sizeof buf, "force-does-not-push-the-node-back-to-the-surface: node on the forbidden side at depth %.6g, F_node.(surface - node) = %.6g, F_triangle.(node - surface) = %.6g", d, Fn.dot(cpa_to_node * -1.0), Ff.dot(cpa_to_node)); err = buf; } }
    // the repulsion is central: the node is pushed along the line to its closest point on the triangle (here: the base point, straight below it), the reaction is shared among the
    // three nodes of the triangle by the barycentric weights of that point, and its size is strength x face area x distance
    if (err.empty() && on_forbidden && fmag > 0) { const vec3 inplane = Fn - nf * Fn.dot(nf);
        if (inplane.norm() > 1e-9 * fmag) { snprintf(buf, sizeof buf, "force-does-not-push-the-node-back-to-the-surface: the force on the node has a component of %.6g of %.6g in the plane of the triangle although its closest point lies straight below it", inplane.norm(), fmag); err = buf; }
        const double w[3][3] = {{1. / 3, 1. / 3, 1. / 3}, {0.5, 0.5, 0}, {1, 0, 0}}; const unsigned ids3[3] = {f.n1_id_, f.n2_id_, f.n3_id_};
        for (int k = 0; k < 3 && err.empty(); k++) { vec3 want = Fn * (-w[cs.base][k]); if ((B->node_lst_[ids3[k]].force_ - want).norm() > 1e-9 * fmag) { snprintf(buf, sizeof buf, "contact-force-not-reciprocal: node %d of the triangle carries (%.6g,%.6g,%.6g), its share of the reaction is (%.6g,%.6g,%.6g)", k, B->node_lst_[ids3[k]].force_.dx(), B->node_lst_[ids3[k]].force_.dy(), B->node_lst_[ids3[k]].force_.dz(), want.dx(), want.dy(), want.dz()); err = buf; } }
        // (all three models; the face type is the one the face carries once the contact has been recorded on it)
        { const double rs = B->get_cell_type()->face_types_[f.type_id_].repulsion_strength_, A2 = 0.5 * (b - a).cross(c - a).norm(), want = rs * A2 * d; if (err.empty() && std::fabs(fmag - want) > 1e-9 * want) { snprintf(buf, sizeof buf, "repulsion-is-not-strength-x-area-x-distance: |F| = %.9g, the face type's repulsion strength %.6g x area %.6g x distance %.6g = %.9g", fmag, rs, A2, d, want); err = buf; } }
    }
    // each cut-off governs the regime it is named after: within the relevant cut-off, doubling or quartering the OTHER cut-off changes neither the force on the node nor whether it is coupled
    if (err.empty() && d < rel_cut * (1 - 1e-9) && d > 0) for (double factor : {2.0, 0.25}) { if (!err.empty()) break; const double other[3] = {on_forbidden ? factor * cadh : cadh, on_forbidden ? crep : factor * crep, rel_cut}; Probe pr; std::string e2 = run_case(cs, nullptr, other, &pr);
        if (e2.empty() && pr.ran && ((pr.Fn - Fn).norm() > 1e-9 * (fmag + 1e-300) || pr.coupled != coupled)) { snprintf(buf, sizeof buf, "contact-force-depends-on-the-cutoff-of-the-other-regime: node on the %s side at distance %.6g (cut-off of its regime %.6g): force (%.6g,%.6g,%.6g) with cut-offs adhesion %.4g repulsion %.4g, (%.6g,%.6g,%.6g) with %.4g / %.4g", on_forbidden ? "forbidden" : "allowed", d, rel_cut, Fn.dx(), Fn.dy(), Fn.dz(), cadh, crep, pr.Fn.dx(), pr.Fn.dy(), pr.Fn.dz(), other[0], other[1]); err = buf; } }
    const double rep_strength = B->get_cell_type()->face_types_[f.type_id_].repulsion_strength_;
    const bool coupling_pair = (CONTACT_MODEL_INDEX != 0) && cs.ta == 0 && cs.tb == 0;
    if (err.empty() && on_forbidden && d < crep * (1 - 1e-9) && d > 0 && rep_strength > 0 && !coupling_pair && fmag == 0) { snprintf(buf, sizeof buf, "no-repulsion-for-a-node-on-the-forbidden-side-within-the-cutoff: depth %.6g, repulsion strength %.6g", d, rep_strength); err = buf; }
    A->clear_data(); B->clear_data();
    return err;
}

// (4) range lattice: triangles of five shapes (acute, right, obtuse at a corner, sliver, scalene) stored in each of their three cyclic orders, placed obliquely in space; the node visits
// a 3-D lattice around the triangle that extends well beyond the cut-offs in the plane and across it.  Oracle: no force and no coupling when the independently computed distance
// exceeds the cut-off; reciprocity; nothing else loaded.
static const double TRI2D[5][6] = {{0, 0, 1, 0, 0.5, 0.87}, {0, 0, 1, 0, 0, 1}, {0, 0, 1, 0, -1, 1}, {0, 0, 1, 0, 0.5, 0.08}, {0, 0, 1.4, 0.2, 0.3, 0.6}};
static const double HEIGHTS[6] = {-0.35, -0.15, -0.05, 0.05, 0.15, 0.35};
static int LAT = 13; static double LAT_STEP = 0.3;   // thorough: 27 x 27 placements at half the spacing
static std::string run_range(int tri, int rot, int cut, int ta, int tb, long* within, long* beyond, long* forces, int only = -1) {
    char buf[500]; const double cadh = CADH[cut], crep = CREP[cut], cmax = std::max(cadh, crep);
    // oblique orthonormal frame
    vec3 ex = vec3(2, 1, -0.5).normalize(), ez = ex.cross(vec3(0.3, -1, 0.8)).normalize(), ey = ez.cross(ex); const vec3 org(3.1, -2.2, 1.7);
    auto P = [&](double x, double y, double z) { return org + ex * x + ey * y + ez * z; };
    vec3 t[3]; for (int k = 0; k < 3; k++) { int j = (k + rot) % 3; t[k] = P(TRI2D[tri][2*j], TRI2D[tri][2*j+1], 0); }
    vec3 apex = (t[0] + t[1] + t[2]) / 3. - ez * 0.5;
    sc::Mesh mb; for (const vec3& v : {t[0], t[1], t[2], apex}) { mb.pos.push_back(v.dx()); mb.pos.push_back(v.dy()); mb.pos.push_back(v.dz()); } mb.tri = {0, 1, 2, 1, 0, 3, 2, 1, 3, 0, 2, 3};
    cell_ptr B = sc::make_cell(mb, 1, make_type((short)tb, 1), true); sc::Mesh ma; ma.pos = {0, 0, 0, 1, 0, 0, 0, 1, 0, 0, 0, 1}; ma.tri = {0, 1, 2, 0, 2, 3, 0, 3, 1, 1, 3, 2}; cell_ptr A = sc::make_cell(ma, 0, make_type((short)ta, 1), true);
    std::vector<cell_ptr> cells = {A, B}; global_simulation_parameters sp = sc::make_sim_params("unused", 0.3); sp.contact_cutoff_adhesion_ = cadh; sp.contact_cutoff_repulsion_ = crep; Model model(sp);
    std::string err; int idx = -1;
    for (int ix = 0; ix < LAT && err.empty(); ix++) for (int iy = 0; iy < LAT && err.empty(); iy++) for (int ih = 0; ih < 6 && err.empty(); ih++) { idx++; if (only >= 0 && idx != only) continue;
        const double x = -1.3 + LAT_STEP * ix, y = -1.3 + LAT_STEP * iy, h = HEIGHTS[ih], sgn = h > 0 ? 1.0 : -1.0; const vec3 p = P(x, y, h);
        vec3 q[4] = {p, p + ez * (sgn * 0.3) + ex * 0.2, p + ez * (sgn * 0.3) + ex * (-0.1) + ey * 0.17, p + ez * (sgn * 0.3) + ex * (-0.1) + ey * (-0.17)};
        if (sgn < 0) std::swap(q[2], q[3]);   // keep the tetrahedron oriented outward
        for (int k = 0; k < 4; k++) A->node_lst_[k].pos_ = q[k];
        prepare(cells); for (auto& c : cells) for (node& n : c->node_lst_) {
#if CONTACT_MODEL_INDEX == 1
            n.coupled_node_.reset();
#elif CONTACT_MODEL_INDEX == 2
            n.coupled_nodes_map_.clear();
#endif
        }
        node& n0 = A->node_lst_[0]; face& f = B->face_lst_[0];
        if (!node_prefilter(*A, n0) || !pair_prefilter(n0, f)) continue;
        zero_forces(cells); narrow(model, A, B, n0, &f);
        const vec3 a = B->node_lst_[f.n1_id_].pos_, b = B->node_lst_[f.n2_id_].pos_, c = B->node_lst_[f.n3_id_].pos_; const double d = (double)sqrtl(dist2_point_triangle(p, a, b, c)); if (d <= cmax) (*within)++; else (*beyond)++;
        vec3 Fn = n0.force_, Ff = B->node_lst_[f.n1_id_].force_ + B->node_lst_[f.n2_id_].force_ + B->node_lst_[f.n3_id_].force_; const double fmag = Fn.norm(); if (fmag > 0) (*forces)++;
        for (unsigned i = 1; i < A->node_lst_.size(); i++) if (A->node_lst_[i].force_.norm() != 0) err = "interaction-applied-force-to-an-uninvolved-node: node cell";
        for (unsigned i = 0; i < B->node_lst_.size(); i++) if (i != f.n1_id_ && i != f.n2_id_ && i != f.n3_id_ && B->node_lst_[i].force_.norm() != 0) err = "interaction-applied-force-to-an-uninvolved-node: face cell";
        bool coupled = false; double coupled_dist = 0;
#if CONTACT_MODEL_INDEX == 1
        if (n0.coupled_node_.has_value()) { coupled = true; auto [ci, ni] = n0.coupled_node_.value(); if (ci != 1 || ni >= B->node_lst_.size()) err = "coupling-designates-wrong-cell-or-node"; else coupled_dist = (B->node_lst_[ni].pos_ - p).norm(); }
#elif CONTACT_MODEL_INDEX == 2
        if (!n0.coupled_nodes_map_.empty()) { coupled = true; auto it = n0.coupled_nodes_map_.begin(); if (it->first != 1 || it->second.first >= B->node_lst_.size()) err = "coupling-designates-wrong-cell-or-node"; else coupled_dist = (B->node_lst_[it->second.first].pos_ - p).norm(); }
#endif
        if (err.empty() && (Fn + Ff).norm() > 1e-12 * std::max(fmag, Ff.norm())) { snprintf(buf, sizeof buf, "contact-force-not-reciprocal: force on node (%.9g,%.9g,%.9g), sum on the triangle (%.9g,%.9g,%.9g)", Fn.dx(), Fn.dy(), Fn.dz(), Ff.dx(), Ff.dy(), Ff.dz()); err = buf; }
        const bool pos_forbidden = forbidden_is_positive_side(ta, tb), on_forbidden = pos_forbidden ? (h > 0) : (h < 0); const double range_cut = (CONTACT_MODEL_INDEX == 0) ? (on_forbidden ? crep : cadh) : cmax;
        if (err.empty() && d > range_cut * (1 + 1e-9) && fmag > 0) { snprintf(buf, sizeof buf, "contact-force-beyond-the-cutoff: distance %.9g cut-off %.9g |F| = %.9g", d, range_cut, fmag); err = buf; }
        if (err.empty() && coupled && coupled_dist > cadh * (1 + 1e-9)) { snprintf(buf, sizeof buf, "coupling-beyond-the-adhesion-cutoff: node distance %.9g cut-off %.9g", coupled_dist, cadh); err = buf; }
        if (!err.empty()) { snprintf(buf, sizeof buf, " [node at in-plane (%.2f,%.2f) height %.2f of triangle shape %d stored from corner %d, lattice index %d]", x, y, h, tri, rot, idx); err += buf; } }
    A->clear_data(); B->clear_data(); return err;
}

// whole tissues: net contact force zero; far cells do not interact; a single concave cell does not interact with itself
struct TissueOut { std::vector<vec3> f; std::vector<long> coupling; };
static std::string run_tissue_ids(int ox, int cut, int ta, int tb, int ids, long* nonzero, TissueOut* out) {
    char buf[300]; auto mk = [&](const sc::Mesh& m, short t, unsigned id) { return sc::make_cell(m, id, make_type(t, 2), true); };
    std::vector<cell_ptr> cells = {mk(sc::icosphere(1), (short)ta, 0), mk(sc::translated(sc::icosphere(1), 0.25 * ox, 0.1, -0.05), (short)tb, 1)}; prepare(cells, ids); for (auto& c : cells) for (unsigned i = 0; i < c->face_lst_.size(); i++) c->face_lst_[i].type_id_ = i % 3;
    global_simulation_parameters sp = sc::make_sim_params("unused", 0.3); sp.contact_cutoff_adhesion_ = CADH[cut]; sp.contact_cutoff_repulsion_ = CREP[cut]; Model model(sp); zero_forces(cells); model.run(cells);
    vec3 net(0, 0, 0); double sumabs = 0; for (auto& c : cells) for (node& n : c->node_lst_) if (n.is_used_) { net = net + n.force_; sumabs += n.force_.norm(); }
    std::string err; if (sumabs > 0) { if (nonzero) (*nonzero)++; if (net.norm() > 1e-9 * sumabs) { snprintf(buf, sizeof buf, "contact-adds-net-force-to-the-tissue: |sum F| = %.6g of sum|F| = %.6g", net.norm(), sumabs); err = buf; } }
    double gap = 0.25 * std::abs(ox) - 2.0; if (err.empty() && gap > std::max(CADH[cut], CREP[cut]) * 1.5 && sumabs > 0) { snprintf(buf, sizeof buf, "contact-force-between-cells-farther-apart-than-the-cutoffs: gap %.6g", gap); err = buf; }
    // no coupling between elements of the same cell (the partner is designated by list position)
    for (unsigned ci = 0; ci < cells.size() && err.empty(); ci++) for (node& n : cells[ci]->node_lst_) if (n.is_used_) {
#if CONTACT_MODEL_INDEX == 1
        if (n.coupled_node_.has_value() && n.coupled_node_->first == ci) err = "coupling-between-elements-of-the-same-cell";
#elif CONTACT_MODEL_INDEX == 2
        for (auto& kv : n.coupled_nodes_map_) if (kv.first == ci) err = "coupling-between-elements-of-the-same-cell";
#endif
    }
    if (out) for (auto& c : cells) for (node& n : c->node_lst_) { out->f.push_back(n.is_used_ ? n.force_ : vec3(0, 0, 0));
#if CONTACT_MODEL_INDEX == 1
        out->coupling.push_back(n.is_used_ && n.coupled_node_.has_value() ? (long)n.coupled_node_->first * 100000 + (long)n.coupled_node_->second : -1);
#elif CONTACT_MODEL_INDEX == 2
        long h = 0; if (n.is_used_) for (auto& kv : n.coupled_nodes_map_) h += ((long)kv.first * 100000 + (long)kv.second.first + 1) * 7919; out->coupling.push_back(h);
#else
        out->coupling.push_back(-1);
#endif
    }
    for (auto& c : cells) c->clear_data(); return err;
}
// the persistent cell ids are labels: the same two cells carrying the ids of a later point of a run (after removals / divisions) receive exactly the same contact forces and couplings
static std::string run_tissue(int ox, int cut, int ta, int tb, long* nonzero, int* failing_ids = nullptr) {
    TissueOut ref; std::string err = run_tissue_ids(ox, cut, ta, tb, 0, nonzero, &ref); if (failing_ids) *failing_ids = 0; if (!err.empty()) return err;
    for (int ids = 1; ids < N_ID_SCHEMES; ids++) { TissueOut o; err = run_tissue_ids(ox, cut, ta, tb, ids, nullptr, &o); if (failing_ids) *failing_ids = ids; if (!err.empty()) return err + " (cell ids " + std::to_string(scheme_id(ids, 0)) + "," + std::to_string(scheme_id(ids, 1)) + ")";
        for (size_t i = 0; i < ref.f.size(); i++) if ((o.f[i] - ref.f[i]).norm() > 1e-12 * (1 + ref.f[i].norm()) || o.coupling[i] != ref.coupling[i]) { char buf[300]; snprintf(buf, sizeof buf, "contact-result-depends-on-the-persistent-cell-ids: node slot %zu receives force (%.6g,%.6g,%.6g) with ids %u,%u and (%.6g,%.6g,%.6g) with ids 0,1", i, o.f[i].dx(), o.f[i].dy(), o.f[i].dz(), scheme_id(ids, 0), scheme_id(ids, 1), ref.f[i].dx(), ref.f[i].dy(), ref.f[i].dz()); return buf; } }
    if (failing_ids) *failing_ids = 0; return "";
}
// living tissues: (h1) two contact phases on the same cells, the neighbour having moved far away in between (nothing of the first phase may survive: no force, no coupling
// beyond the cut-offs), with node lists that are compact / carry a free slot from a real edge collapse; (h2) a cell whose faces were re-created by a real collapse + split
// since its caches were last refreshed (what the refiner leaves to the contact phase of the same iteration): a node on the forbidden side of such a face is pushed back.
static std::string run_two_phases(int ta, int tb, int cut, int slots) {
    auto mk = [&](const sc::Mesh& m, short t, unsigned id) { return sc::make_cell(m, id, make_type(t, 1), true); };
    if (slots == 3) {   // the reverse order: the model first sees the neighbour 40 sizes away, then in contact; the second phase must give what a fresh model gives on the same geometry
        std::vector<vec3> F[2]; std::vector<long> CP[2]; char b3[400];
        for (int hist = 0; hist < 2; hist++) { std::vector<cell_ptr> cells = {mk(sc::icosphere(1), (short)ta, 0), mk(sc::translated(sc::icosphere(1), 1.95, 0.1, -0.05), (short)tb, 1)};
            global_simulation_parameters sp = sc::make_sim_params("unused", 0.3); sp.contact_cutoff_adhesion_ = CADH[cut]; sp.contact_cutoff_repulsion_ = CREP[cut]; Model model(sp);
            if (hist) { std::vector<vec3> near_pos; for (node& n : cells[1]->node_lst_) { near_pos.push_back(n.pos_); if (n.is_used_) n.pos_ = n.pos_ + vec3(40, 0, 0); } prepare(cells); zero_forces(cells); model.run(cells); for (unsigned i = 0; i < cells[1]->node_lst_.size(); i++) cells[1]->node_lst_[i].pos_ = near_pos[i]; }
            prepare(cells); zero_forces(cells); model.run(cells);
            for (auto& c : cells) for (node& n : c->node_lst_) { F[hist].push_back(n.is_used_ ? n.force_ : vec3(0, 0, 0));
#if CONTACT_MODEL_INDEX == 1
                CP[hist].push_back(n.is_used_ && n.coupled_node_.has_value() ? (long)n.coupled_node_->first * 100000 + (long)n.coupled_node_->second : -1);
#elif CONTACT_MODEL_INDEX == 2
                long h = 0; if (n.is_used_) for (auto& kv : n.coupled_nodes_map_) h += ((long)kv.first * 100000 + (long)kv.second.first + 1) * 7919; CP[hist].push_back(h);
#else
                CP[hist].push_back(-1);
#endif
            }
            for (auto& c : cells) c->clear_data(); }
        double sum = 0; for (auto& f : F[0]) sum += f.norm(); bool anyc = false; for (long c : CP[0]) if (c != -1 && c != 0) anyc = true; if (sum == 0 && !anyc) return "INTERNAL the contact phase produced nothing";
        for (size_t i = 0; i < F[0].size(); i++) if ((F[0][i] - F[1][i]).norm() > 1e-12 * (1 + F[0][i].norm()) || CP[0][i] != CP[1][i]) { snprintf(b3, sizeof b3, "contact-result-depends-on-the-history-of-the-cells: node slot %zu receives force (%.6g,%.6g,%.6g) from a model that first saw the neighbour 40 sizes away, (%.6g,%.6g,%.6g) from a fresh model%s", i, F[1][i].dx(), F[1][i].dy(), F[1][i].dz(), F[0][i].dx(), F[0][i].dy(), F[0][i].dz(), CP[0][i] != CP[1][i] ? "; couplings differ" : ""); return b3; }
        return ""; }
    std::vector<cell_ptr> cells = {mk(sc::icosphere(1), (short)ta, 0), mk(sc::translated(sc::icosphere(1), 1.95, 0.1, -0.05), (short)tb, 1)};
    if (slots == 1) { local_mesh_refiner lmr(1e-3, 1e3, true); for (auto& c : cells) for (const edge& e0 : c->get_edge_set()) { edge e = e0; bool can = false; try { can = lmr.can_be_merged(e, c); } catch (...) {} if (!can) continue; edge_set es = c->get_edge_set(); try { lmr.merge_edge(e, c, es); } catch (...) {} break; } }
    prepare(cells); global_simulation_parameters sp = sc::make_sim_params("unused", 0.3); sp.contact_cutoff_adhesion_ = CADH[cut]; sp.contact_cutoff_repulsion_ = CREP[cut]; Model model(sp);
    zero_forces(cells); model.run(cells);
    long touched = 0; for (auto& c : cells) for (node& n : c->node_lst_) if (n.is_used_) { if (n.force_.norm() > 0) touched++;
#if CONTACT_MODEL_INDEX == 1
        if (n.coupled_node_.has_value()) touched++;
#elif CONTACT_MODEL_INDEX == 2
        if (!n.coupled_nodes_map_.empty()) touched++;
#endif
    }
    // the neighbour leaves (slots == 2: and shrinks, so that the curvature of its nodes rises above the coupling threshold of its type - which is how links are meant to break)
#if CONTACT_MODEL_INDEX != 0
    if (slots == 2) { double kmax = 0; for (auto& c : cells) for (node& n : c->node_lst_) if (n.is_used_) kmax = std::max(kmax, std::fabs(n.curvature_)); for (auto& c : cells) { auto ty = std::make_shared<cell_type_parameters>(*c->cell_type_); ty->surface_coupling_max_curvature_ = 1.5 * kmax; c->cell_type_ = ty; }
        // the threshold is in force from the first phase on: run it again so that the couplings of the first phase were made under it
        prepare(cells); zero_forces(cells); model.run(cells);
        vec3 ctr(0, 0, 0); long n1 = 0; for (node& n : cells[1]->node_lst_) if (n.is_used_) { ctr = ctr + n.pos_; n1++; } ctr = ctr / (double)n1; for (node& n : cells[1]->node_lst_) if (n.is_used_) n.pos_ = ctr + (n.pos_ - ctr) * 0.4; }
#endif
    for (node& n : cells[1]->node_lst_) if (n.is_used_) n.pos_ = n.pos_ + vec3(40, 0, 0);
    prepare(cells); zero_forces(cells); model.run(cells);
    std::string err; char buf[300];
    for (unsigned ci = 0; ci < cells.size() && err.empty(); ci++) for (unsigned ni = 0; ni < cells[ci]->node_lst_.size() && err.empty(); ni++) { node& n = cells[ci]->node_lst_[ni]; if (!n.is_used_) continue;
        if (n.force_.norm() > 0) { snprintf(buf, sizeof buf, "contact-force-between-cells-farther-apart-than-the-cutoffs: node %u of cell %u after the neighbour moved 40 cell sizes away", ni, ci); err = buf; }
#if CONTACT_MODEL_INDEX == 1
        if (n.coupled_node_.has_value()) { snprintf(buf, sizeof buf, "coupling-beyond-the-adhesion-cutoff: node %u of cell %u is still coupled after the neighbour moved 40 cell sizes away", ni, ci); err = buf; }
#elif CONTACT_MODEL_INDEX == 2
        if (!n.coupled_nodes_map_.empty()) { snprintf(buf, sizeof buf, "coupling-beyond-the-adhesion-cutoff: node %u of cell %u is still coupled after the neighbour moved 40 cell sizes away", ni, ci); err = buf; }
#endif
    }
    for (auto& c : cells) c->clear_data();
    if (err.empty() && !touched) return "INTERNAL the first contact phase produced nothing";
    return err;
}
static std::string run_recreated_faces(int ta, int tb, int cut, long* probes) {
    // cell B: a cube whose caches are fresh, then remeshed by the real refiner operations (a collapse frees two face slots, a split re-uses them); no refresh afterwards
    cell_ptr B = sc::make_cell(sc::translated(sc::subdivide_flat(sc::cube12(), ""), -0.5, -0.5, -0.5), 1, make_type((short)tb, 1), true); for (unsigned i = 0; i < B->face_lst_.size(); i++) B->face_lst_[i].type_id_ = 0;
    { std::vector<cell_ptr> one = {B}; prepare(one); B->set_id(1); B->set_local_id(1); }
    local_mesh_refiner lmr(1e-3, 1e3, true);
    for (const edge& e0 : B->get_edge_set()) { edge e = e0; bool can = false; try { can = lmr.can_be_merged(e, B); } catch (...) {} if (!can) continue; edge_set es = B->get_edge_set(); try { lmr.merge_edge(e, B, es); } catch (...) {} break; }
    { double best = -1; std::optional<edge> pick; for (const edge& e0 : B->get_edge_set()) { double l2 = (B->node_lst_[e0.n1()].pos_ - B->node_lst_[e0.n2()].pos_).squared_norm(); if (l2 > best) { best = l2; pick = e0; } } if (pick) { edge e = *pick; edge_set es = B->get_edge_set(); try { lmr.split_edge(e, B, es); } catch (...) {} } }
    { sc::OracleOpts oo; oo.check_cached_geometry = false; if (!sc::oracle_mesh(*B, oo).empty()) { B->clear_data(); return "skip"; } }
    global_simulation_parameters sp = sc::make_sim_params("unused", 0.3); sp.contact_cutoff_adhesion_ = CADH[cut]; sp.contact_cutoff_repulsion_ = CREP[cut]; Model model(sp); const double crep = CREP[cut];
    const bool pos_forbidden = forbidden_is_positive_side(ta, tb); std::string err; char buf[300];
    for (unsigned fi = 0; fi < B->face_lst_.size() && err.empty(); fi++) { face& f = B->face_lst_[fi]; if (!f.is_used_) continue;
        const vec3 a = B->node_lst_[f.n1_id_].pos_, b = B->node_lst_[f.n2_id_].pos_, c = B->node_lst_[f.n3_id_].pos_; vec3 nn = (b - a).cross(c - a); const double A2 = nn.norm(); if (A2 < 1e-6) continue; const vec3 nf = nn / A2;   // the true outward normal of the triangle as it is now
        const double s = (pos_forbidden ? 1.0 : -1.0) * 0.4 * crep; const vec3 p = (a + b + c) / 3. + nf * s; const double sgn = s > 0 ? 1.0 : -1.0;
        vec3 u = std::fabs(nf.dx()) < 0.9 ? vec3(1, 0, 0).cross(nf).normalize() : vec3(0, 1, 0).cross(nf).normalize(); vec3 v = nf.cross(u); const double h = 0.3;
        vec3 q1 = p + nf * (sgn * h) + u * 0.2, q2 = p + nf * (sgn * h) + u * (-0.1) + v * 0.17, q3 = p + nf * (sgn * h) + u * (-0.1) + v * (-0.17);
        sc::Mesh ma; ma.pos = {p.dx(), p.dy(), p.dz(), q1.dx(), q1.dy(), q1.dz(), q2.dx(), q2.dy(), q2.dz(), q3.dx(), q3.dy(), q3.dz()}; ma.tri = {0, 1, 2, 0, 2, 3, 0, 3, 1, 1, 3, 2}; if (sgn < 0) ma.tri = {0, 2, 1, 0, 3, 2, 0, 1, 3, 1, 2, 3};
        cell_ptr A = sc::make_cell(ma, 0, make_type((short)ta, 1), true); { std::vector<cell_ptr> one = {A}; prepare(one); }
        node& n0 = A->node_lst_[0]; if (!node_prefilter(*A, n0) || !pair_prefilter(n0, f)) { A->clear_data(); continue; }
        std::vector<cell_ptr> both = {A, B}; zero_forces(both); narrow(model, A, B, n0, &f); (*probes)++;
        const vec3 Fn = n0.force_; const bool coupling_pair = (CONTACT_MODEL_INDEX != 0) && ta == 0 && tb == 0; const vec3 back = nf * (-s);   // from the node towards the surface
        if (!coupling_pair && B->get_cell_type()->face_types_[f.type_id_].repulsion_strength_ > 0) {
            if (Fn.norm() == 0) { snprintf(buf, sizeof buf, "no-repulsion-for-a-node-on-the-forbidden-side-within-the-cutoff: face %u of a cell remeshed since its last refresh (cached normal (%.3g,%.3g,%.3g), cached area %.3g)", fi, f.normal_.dx(), f.normal_.dy(), f.normal_.dz(), f.area_); err = buf; }
            else if (!(Fn.dot(back) > 0)) { snprintf(buf, sizeof buf, "force-does-not-push-the-node-back-to-the-surface: face %u of a cell remeshed since its last refresh, F.(surface - node) = %.6g", fi, Fn.dot(back)); err = buf; } }
        A->clear_data(); }
    B->clear_data(); return err;
}


// (h3) history independence of the contact phase: two overlapping cells whose caches (face normals / areas, node normals and curvatures) were first computed while one of the cells
// was turned by half a turn about its own axis, then turned back and refreshed again as the solver does before every contact phase, receive exactly the forces and couplings of the same two
// cells built directly in the final position.  Whatever a refresh fails to recompute from scratch shows up here.
static std::string run_turned(int ox, int cut, int ta, int tb, int which, long* nonzero) {
    char buf[300]; auto mk = [&](const sc::Mesh& m, short t, unsigned id) { return sc::make_cell(m, id, make_type(t, 2), true); };
    std::vector<vec3> F[2]; std::vector<long> CP[2];
    for (int hist = 0; hist < 2; hist++) {
        std::vector<cell_ptr> cells = {mk(sc::scaled(sc::icosphere(1), 1, 0.9, 1.1), (short)ta, 0), mk(sc::translated(sc::scaled(sc::icosphere(1), 1.1, 1, 0.9), 0.25 * ox, 0.1, -0.05), (short)tb, 1)}; for (auto& c : cells) for (unsigned i = 0; i < c->face_lst_.size(); i++) c->face_lst_[i].type_id_ = i % 3;
        if (hist) { cell& c = *cells[which]; std::vector<vec3> final_pos; vec3 ctr(0, 0, 0); long n = 0; for (node& nd : c.node_lst_) { final_pos.push_back(nd.pos_); if (nd.is_used_) { ctr = ctr + nd.pos_; n++; } } ctr = ctr / (double)n;
            for (node& nd : c.node_lst_) if (nd.is_used_) nd.pos_ = vec3(2 * ctr.dx() - nd.pos_.dx(), 2 * ctr.dy() - nd.pos_.dy(), nd.pos_.dz());   // half a turn about the z axis through the centre
            prepare(cells); for (unsigned i = 0; i < c.node_lst_.size(); i++) c.node_lst_[i].pos_ = final_pos[i]; }
        prepare(cells); global_simulation_parameters sp = sc::make_sim_params("unused", 0.3); sp.contact_cutoff_adhesion_ = CADH[cut]; sp.contact_cutoff_repulsion_ = CREP[cut]; Model model(sp); zero_forces(cells); model.run(cells);
        for (auto& c : cells) for (node& nd : c->node_lst_) { F[hist].push_back(nd.is_used_ ? nd.force_ : vec3(0, 0, 0));
#if CONTACT_MODEL_INDEX == 1
            CP[hist].push_back(nd.is_used_ && nd.coupled_node_.has_value() ? (long)nd.coupled_node_->first * 100000 + (long)nd.coupled_node_->second : -1);
#elif CONTACT_MODEL_INDEX == 2
            long h = 0; if (nd.is_used_) for (auto& kv : nd.coupled_nodes_map_) h += ((long)kv.first * 100000 + (long)kv.second.first + 1) * 7919; CP[hist].push_back(h);
#else
            CP[hist].push_back(-1);
#endif
        }
        for (auto& c : cells) c->clear_data(); }
    double sumabs = 0; for (auto& f : F[0]) sumabs += f.norm(); if (sumabs > 0 && nonzero) (*nonzero)++;
    for (size_t i = 0; i < F[0].size(); i++) if ((F[0][i] - F[1][i]).norm() > 1e-12 * (1 + F[0][i].norm()) || CP[0][i] != CP[1][i]) { snprintf(buf, sizeof buf, "contact-result-depends-on-the-history-of-the-cells: node slot %zu receives force (%.6g,%.6g,%.6g) when cell %d was turned by half a turn and back before the phase, (%.6g,%.6g,%.6g) when the cells are built in place%s", i, F[1][i].dx(), F[1][i].dy(), F[1][i].dz(), which, F[0][i].dx(), F[0][i].dy(), F[0][i].dz(), CP[0][i] != CP[1][i] ? "; couplings differ" : ""); return buf; }
    return ""; }

static std::string run_self(int type, int cut, int ids = 0) {
    // a dumbbell-like concave cell: two lobes whose surfaces come within the cut-off of each other
    sc::Mesh m = sc::icosphere(2); for (size_t i = 0; i < m.nv(); i++) { double x = m.pos[3*i]; double r = 0.25 + 0.75 * x * x; m.pos[3*i+1] *= r; m.pos[3*i+2] *= r; if (std::fabs(x) < 0.2) { m.pos[3*i+1] *= 0.1; m.pos[3*i+2] *= 0.1; } }
    cell_ptr c = sc::make_cell(m, 0, make_type((short)type, 1), true); std::vector<cell_ptr> cells = {c}; prepare(cells, ids);
    global_simulation_parameters sp = sc::make_sim_params("unused", 0.3); sp.contact_cutoff_adhesion_ = CADH[cut] * 2; sp.contact_cutoff_repulsion_ = CREP[cut] * 2; Model model(sp); zero_forces(cells); model.run(cells);
    std::string err; for (node& n : c->node_lst_) if (n.is_used_) { if (n.force_.norm() != 0) err = "contact-force-between-elements-of-the-same-cell";
#if CONTACT_MODEL_INDEX == 1
        if (n.coupled_node_.has_value()) err = "coupling-between-elements-of-the-same-cell";
#elif CONTACT_MODEL_INDEX == 2
        if (!n.coupled_nodes_map_.empty()) err = "coupling-between-elements-of-the-same-cell";
#endif
    }
    c->clear_data(); return err;
}

static void explore(Result& R) {
    if (R.args.thorough()) { LAT = 27; LAT_STEP = 0.15; }
    Stat st; long cases = 0, tissues = 0, nonzero = 0;
    for (int ta = 0; ta < 5; ta++) for (int tb = 0; tb < 5; tb++) for (int d = 0; d < 7; d++) for (int b = 0; b < 3; b++) for (int s = 0; s < 3; s++) for (int cu = 0; cu < 2; cu++) for (int fc = 0; fc < 12; fc++) for (int mb = 0; mb < 2; mb++) { if (!R.args.thorough() && fc != 0 && fc != 5 && fc != 7) continue;
        Case c{ta, tb, d, b, s, cu, fc, mb}; cases++; std::string e = run_case(c, &st);
        if (!e.empty()) R.violation(clause_of(e) + "|types=" + std::to_string(ta) + ">" + std::to_string(tb), case_json(c) + ": " + e, "mode=pair\ncase=" + case_text(c) + "\n");
        if (cases % 4000 == 1) R.sample(case_json(c)); }
    for (int ox = -12; ox <= 12; ox++) for (int cu = 0; cu < 2; cu++) for (int ta = 0; ta < 5; ta++) for (int tb = 0; tb < 5; tb++) { tissues++; std::string e = run_tissue(ox, cu, ta, tb, &nonzero);
        if (!e.empty()) R.violation(clause_of(e) + "|types=" + std::to_string(ta) + ">" + std::to_string(tb), "two icospheres, offset " + std::to_string(0.25 * ox) + ", types " + std::to_string(ta) + "," + std::to_string(tb) + ": " + e, "mode=tissue\nox=" + std::to_string(ox) + "\ncut=" + std::to_string(cu) + "\nta=" + std::to_string(ta) + "\ntb=" + std::to_string(tb) + "\n"); }
    for (int t = 0; t < 5; t++) for (int cu = 0; cu < 2; cu++) for (int ids = 0; ids < N_ID_SCHEMES; ids++) { tissues++; std::string e = run_self(t, cu, ids); if (!e.empty()) R.violation(clause_of(e), "single concave cell of type " + std::to_string(t) + " with id " + std::to_string(scheme_id(ids, 0)) + " at list position 0: " + e, "mode=self\ntype=" + std::to_string(t) + "\ncut=" + std::to_string(cu) + "\nids=" + std::to_string(ids) + "\n"); }
    { long two = 0, probes = 0; for (int ta = 0; ta < 5; ta++) for (int tb = 0; tb < 5; tb++) for (int cu = 0; cu < 2; cu++) { for (int sl = 0; sl < 4; sl++) { std::string e = run_two_phases(ta, tb, cu, sl); two++; tissues++; if (e.rfind("INTERNAL", 0) == 0) { if (ta == 0 && tb == 0) { R.internal_error = e; return; } continue; }
            if (!e.empty()) R.violation(clause_of(e) + "|types=" + std::to_string(ta) + ">" + std::to_string(tb) + "|two-phases", "two icospheres 0.05 below contact, then 40 cell sizes apart, types " + std::to_string(ta) + "," + std::to_string(tb) + (sl == 1 ? ", node lists with a free slot" : sl == 2 ? ", the leaving cell shrinks: the curvature of its nodes rises above the coupling threshold" : sl == 3 ? ", reverse order: far first, then in contact" : "") + ": " + e, "mode=twophase\nta=" + std::to_string(ta) + "\ntb=" + std::to_string(tb) + "\ncut=" + std::to_string(cu) + "\nslots=" + std::to_string(sl) + "\n"); }
          std::string e = run_recreated_faces(ta, tb, cu, &probes); tissues++; if (!e.empty() && e != "skip") R.violation(clause_of(e) + "|types=" + std::to_string(ta) + ">" + std::to_string(tb) + "|recreated-faces", "types " + std::to_string(ta) + "," + std::to_string(tb) + ": " + e, "mode=recreated\nta=" + std::to_string(ta) + "\ntb=" + std::to_string(tb) + "\ncut=" + std::to_string(cu) + "\n"); }
      R["two_phase_tissues"] = two; R["probes_of_faces_recreated_since_the_last_refresh"] = probes; if (!probes && R.violations.empty()) R.internal_error = "no re-created face was probed (vacuous)"; }
    { long turned = 0, tnz = 0; for (int ox : {-8, -7, 6, 7, 8}) for (int cu = 0; cu < 2; cu++) for (int ta = 0; ta < 5; ta++) for (int tb = 0; tb < 5; tb++) for (int which = 0; which < 2; which++) { turned++; tissues++; std::string e = run_turned(ox, cu, ta, tb, which, &tnz);
          if (!e.empty()) R.violation(clause_of(e) + "|types=" + std::to_string(ta) + ">" + std::to_string(tb) + "|turned", "two ellipsoids, offset " + std::to_string(0.25 * ox) + ", types " + std::to_string(ta) + "," + std::to_string(tb) + ": " + e, "mode=turned\nox=" + std::to_string(ox) + "\ncut=" + std::to_string(cu) + "\nta=" + std::to_string(ta) + "\ntb=" + std::to_string(tb) + "\nwhich=" + std::to_string(which) + "\n"); }
      R["tissues_with_a_cell_turned_since_its_first_refresh"] = turned; R["of_which_with_contact_force"] = tnz; if (!tnz && R.violations.empty()) { R.internal_error = "turned-cell block vacuous"; return; } }
    long within = 0, beyond = 0, rforces = 0, lattices = 0;
    for (int tri = 0; tri < 5; tri++) for (int rot = 0; rot < 3; rot++) for (int cu = 0; cu < 2; cu++) for (int ta = 0; ta < 5; ta++) for (int tb = 0; tb < 5; tb++) { lattices++; std::string e = run_range(tri, rot, cu, ta, tb, &within, &beyond, &rforces);
        if (!e.empty()) { int only = atoi(e.c_str() + e.rfind("lattice index ") + 14); R.violation(clause_of(e) + "|types=" + std::to_string(ta) + ">" + std::to_string(tb) + "|range-lattice", e, "mode=range\ntri=" + std::to_string(tri) + "\nrot=" + std::to_string(rot) + "\ncut=" + std::to_string(cu) + "\nta=" + std::to_string(ta) + "\ntb=" + std::to_string(tb) + "\nonly=" + std::to_string(only) + "\nlat=" + std::to_string(LAT) + "\n"); } }
    R["range_lattice_placements_within_cutoff"] = within; R["range_lattice_placements_beyond_cutoff"] = beyond; R["range_lattice_placements_with_force"] = rforces; cases += within + beyond;
    if (R.violations.empty() && (!within || !beyond || !rforces)) R.internal_error = "range lattice vacuous";
    R["evaluations"] = cases + tissues; R["states"] = cases + tissues; R["transitions"] = cases + tissues; R["distinct_nontrivial"] = st.forces + st.couplings + nonzero + within; R["traces_validated_against_impl"] = cases + tissues;
    R["single_interactions"] = cases; R["interactions_with_force"] = st.forces; R["interactions_with_coupling"] = st.couplings; R["interactions_with_no_effect"] = st.nothing; R["interactions_rejected_by_the_models_own_prefilter"] = st.prefiltered; R["forces_on_forbidden_side_checked_for_direction"] = st.forbidden_forces; R["tissues"] = tissues; R["tissues_with_contact_force"] = nonzero;
    R.tables["build"]["contact_model_index"] = CONTACT_MODEL_INDEX;
    if (R.violations.empty() && (!st.forces || !st.forbidden_forces || !nonzero)) R.internal_error = "no contact force was ever produced (vacuous)";
    R.strings["rule"] = "distinct_nontrivial = single interactions that produced a force or a coupling + tissues with a non-zero contact force + lattice placements within the cut-off (all distinct tuples by construction); single interactions: every ordered pair of the five cell types x 7 signed distances (in units of the relevant cut-off, both sides of the surface) x node above the interior / an edge / a vertex of the triangle x 3 strength sets x 2 cut-off pairs x 3 faces x 2 meshes, run through the model's own narrow-phase routine with force increments read back; tissues: two icospheres at 25 offsets x type pairs x 4 persistent-id assignments (start-up ids, ids after a removal at the list head / in the middle, late ids) through contact_model::run, forces and couplings identical for all id assignments; single concave cells x the same id assignments; range lattice: 5 triangle shapes x 3 stored orders x 13x13x6 node placements (up to 1.3 edge lengths beyond the triangle, 0.05-0.35 off its plane) x type pairs x cut-off pairs through the narrow phase";
    R.assumptions = {"forbidden side = behind the triangle normal, except epithelial node / ECM triangle and nucleus node / epithelial triangle where it is in front of it", "range: model 0 is held to the cut-off of the regime (adhesion in front, repulsion behind), the coupling models to the larger of the two (their rule)", "a repulsive force is demanded within the repulsion cut-off on the forbidden side unless the pair is epithelial-epithelial in a coupling model (which may couple instead)", "pairs rejected by the model's own node/normal pre-filters are counted, not judged"};
}
static int replay(const Replay& rp, Result& R) { std::string e1, e2, m = rp.get("mode"); long nz = 0;
    if (m == "pair") { Case c; std::istringstream i(rp.get("case")); i >> c.ta >> c.tb >> c.depth >> c.base >> c.strength >> c.cut >> c.face >> c.meshb; e1 = run_case(c); e2 = run_case(c); printf("%s\n", case_json(c).c_str()); }
    else if (m == "range") { if (rp.geti("lat", 13) == 27) { LAT = 27; LAT_STEP = 0.15; } long a = 0, b = 0, c = 0; auto go = [&] { return run_range((int)rp.geti("tri"), (int)rp.geti("rot"), (int)rp.geti("cut"), (int)rp.geti("ta"), (int)rp.geti("tb"), &a, &b, &c, (int)rp.geti("only", -1)); }; e1 = go(); e2 = go(); }
    else if (m == "twophase") { auto go = [&] { return run_two_phases((int)rp.geti("ta"), (int)rp.geti("tb"), (int)rp.geti("cut"), (int)rp.geti("slots")); }; e1 = go(); e2 = go(); }
    else if (m == "turned") { auto go = [&] { return run_turned((int)rp.geti("ox"), (int)rp.geti("cut"), (int)rp.geti("ta"), (int)rp.geti("tb"), (int)rp.geti("which"), nullptr); }; e1 = go(); e2 = go(); }
    else if (m == "recreated") { long pr = 0; auto go = [&] { return run_recreated_faces((int)rp.geti("ta"), (int)rp.geti("tb"), (int)rp.geti("cut"), &pr); }; e1 = go(); e2 = go(); }
    else if (m == "tissue") { e1 = run_tissue((int)rp.geti("ox"), (int)rp.geti("cut"), (int)rp.geti("ta"), (int)rp.geti("tb"), &nz); e2 = run_tissue((int)rp.geti("ox"), (int)rp.geti("cut"), (int)rp.geti("ta"), (int)rp.geti("tb"), &nz); }
    else { int ids = (int)rp.geti("ids", 0); e1 = run_self((int)rp.geti("type"), (int)rp.geti("cut"), ids); e2 = run_self((int)rp.geti("type"), (int)rp.geti("cut"), ids); }
    if (e1 != e2) { printf("replay diverged\n"); return 0; } printf("%s\n", e1.c_str()); if (!e1.empty()) { R.violation(clause_of(e1), e1, ""); return 1; } return 0; }
int main(int argc, char** argv) { return run_main(argc, argv, "C07", explore, replay); }
