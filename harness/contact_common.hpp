#pragma once
// Shared by C06 / C07: selects the contact model class of the build, wraps its narrow phase, collects the H4 candidate reports.
#include "sc3d.hpp"
#include "contact_node_node_via_coupling.hpp"
#include "contact_node_face_via_spring.hpp"
#include "contact_face_face_via_coupling.hpp"
#include <unordered_set>

namespace cx {
using namespace vf;
#if CONTACT_MODEL_INDEX == 0
typedef contact_node_face_via_spring Model;
inline void narrow(const Model& m, cell_ptr c1, cell_ptr c2, node& n, face* f) { (void)c2; m.apply_contact_forces(c1, n, f); }
inline bool pair_prefilter(const node&, const face&) { return true; }
#elif CONTACT_MODEL_INDEX == 1
typedef contact_node_node_via_coupling Model;
inline void narrow(const Model& m, cell_ptr c1, cell_ptr c2, node& n, face* f) { m.resolve_contact(c1, c2, n, f); }
inline bool pair_prefilter(const node& n, const face& f) { static const double cos90 = std::cos(90. * M_PI / 180.);   /* the rule as documented (normals more than 90 degrees apart), with the harness's own constant: a node that has no normal (dot product exactly 0) is a candidate */ return n.normal_.dot(f.normal_) < cos90; }
#else
typedef contact_face_face_via_coupling Model;
inline void narrow(const Model& m, cell_ptr c1, cell_ptr c2, node& n, face* f) { m.resolve_contact(c1, c2, n, f); }
inline bool pair_prefilter(const node& n, const face& f) { static const double cos90 = std::cos(90. * M_PI / 180.);   /* the rule as documented (normals more than 90 degrees apart), with the harness's own constant: a node that has no normal (dot product exactly 0) is a candidate */ return n.normal_.dot(f.normal_) < cos90; }
#endif
inline bool node_prefilter(const cell& c, const node& n) {
#if CONTACT_MODEL_INDEX == 0
    (void)c; (void)n; return true;
#else
    return n.curvature_ < c.get_cell_type()->surface_coupling_max_curvature_;
#endif
}

struct PairHash { size_t operator()(const std::pair<const void*, const void*>& p) const { return std::hash<const void*>()(p.first) * 1000003u ^ std::hash<const void*>()(p.second); } };
inline std::unordered_set<std::pair<const void*, const void*>, PairHash>& candidates() { static std::unordered_set<std::pair<const void*, const void*>, PairHash> s; return s; }
inline bool& collecting() { static bool b = false; return b; }

using sc::dist2_point_triangle;

struct ForceSnap { std::vector<std::vector<vec3>> f; };
inline ForceSnap forces_of(const std::vector<cell_ptr>& cells) { ForceSnap s; for (auto& c : cells) { s.f.emplace_back(); for (const node& n : c->node_lst_) s.f.back().push_back(n.is_used_ ? n.force_ : vec3(0, 0, 0)); } return s; }
inline void zero_forces(const std::vector<cell_ptr>& cells) { for (auto& c : cells) for (node& n : c->node_lst_) n.force_.reset(); }
// what the solver guarantees before the contact phase: fresh face normals/areas and node normals/curvatures
// ID_SCHEMES: the persistent ids a population can carry while its list positions are 0..n-1 (solver start-up; after the first cell of the list was removed; after a middle cell was
// removed; late in a run).  Ids are labels: no contact result may depend on them.
static const int N_ID_SCHEMES = 5;
inline unsigned scheme_id(int scheme, unsigned i) { switch (scheme) { case 0: return i; case 1: return i + 1; case 2: return 2 * i; case 3: return 3 + 4 * i; default: return 70000 + 3 * i; /* beyond 16 bits: a long run with many divisions */ } }
inline void prepare(const std::vector<cell_ptr>& cells, int id_scheme = 0) { for (unsigned i = 0; i < cells.size(); i++) { cell& c = *cells[i]; c.set_id(scheme_id(id_scheme, i)); c.set_local_id(i); c.update_all_face_normals_and_areas(); c.area_ = c.compute_area(); c.volume_ = c.compute_volume();
#if CONTACT_MODEL_INDEX != 0
        if (c.get_cell_type_id() != 1) c.compute_node_curvature_and_normals();   /* as in the solver: ecm_cell::apply_internal_forces does nothing, the nodes of an ECM cell never get a normal or a curvature */
#endif
    } }
} // namespace cx

namespace simucell3d_verif { void contact_candidate(const void* c1, const void* n, const void* f) { (void)c1; if (cx::collecting()) cx::candidates().insert({n, f}); } }
