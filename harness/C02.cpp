// C02 — internal forces: zero net force / torque, pressure = p dV/dx, tension/elasticity = -sum gamma_f dA_f/dx, equivariance.
// Exhaustive product: mesh family (hand-made + every mesh a depth-2 remeshing BFS reaches) x placements x parameter sets.
#include "sc3d.hpp"
#include <unordered_set>
using namespace vf;

struct V3 { long double x = 0, y = 0, z = 0; };
static V3 operator+(V3 a, V3 b) { return {a.x + b.x, a.y + b.y, a.z + b.z}; }
static V3 operator-(V3 a, V3 b) { return {a.x - b.x, a.y - b.y, a.z - b.z}; }
static V3 operator*(V3 a, long double s) { return {a.x * s, a.y * s, a.z * s}; }
static V3 cross(V3 a, V3 b) { return {a.y * b.z - a.z * b.y, a.z * b.x - a.x * b.z, a.x * b.y - a.y * b.x}; }
static long double norm(V3 a) { return sqrtl(a.x * a.x + a.y * a.y + a.z * a.z); }
static long double dot(V3 a, V3 b) { return a.x * b.x + a.y * b.y + a.z * b.z; }
static V3 tov(const vec3& v) { return {v.dx(), v.dy(), v.dz()}; }

enum Term { PRESSURE_POS = 0, PRESSURE_NEG, PRESSURE_CAPPED, TENSION_UNIFORM, TENSION_PER_TYPE, ELASTICITY, TENSION_AND_ELASTICITY, BENDING_UNIFORM, BENDING_PER_TYPE, ANGLES, ALL_TOGETHER, NTERMS };
static const char* term_name[] = {"pressure(target>V)", "pressure(target<V)", "pressure(capped)", "tension(uniform)", "tension(per face type)", "area elasticity", "tension+elasticity", "bending(uniform)", "bending(per face type)", "angle regularisation", "apply_internal_forces(all terms)"};

static cell_type_param_ptr type_for(Term t) {
    auto ty = sc::make_cell_type(0, 3); ty->bulk_modulus_ = 2.5; ty->target_isoperimetric_ratio_ = 200; ty->avg_growth_rate_ = 0;
    for (auto& f : ty->face_types_) { f.surface_tension_ = 0; f.bending_modulus_ = 0; }
    ty->area_elasticity_modulus_ = 0; ty->angle_regularization_factor_ = 0;
    switch (t) {
        case PRESSURE_CAPPED: ty->max_pressure_ = 0.05; break;
        case TENSION_UNIFORM: for (auto& f : ty->face_types_) f.surface_tension_ = 0.7; break;
        case TENSION_PER_TYPE: ty->face_types_[0].surface_tension_ = 0.3; ty->face_types_[1].surface_tension_ = 1.1; ty->face_types_[2].surface_tension_ = 0; break;
        case ELASTICITY: ty->area_elasticity_modulus_ = 1.3; break;
        case TENSION_AND_ELASTICITY: ty->area_elasticity_modulus_ = 1.3; ty->face_types_[0].surface_tension_ = 0.3; ty->face_types_[1].surface_tension_ = 1.1; ty->face_types_[2].surface_tension_ = 0.5; break;
        case BENDING_UNIFORM: for (auto& f : ty->face_types_) f.bending_modulus_ = 0.4; break;
        case BENDING_PER_TYPE: ty->face_types_[0].bending_modulus_ = 0.4; ty->face_types_[1].bending_modulus_ = 0; ty->face_types_[2].bending_modulus_ = 1.5; break;
        case ANGLES: ty->angle_regularization_factor_ = 0.8; break;
        case ALL_TOGETHER: ty->area_elasticity_modulus_ = 1.3; ty->angle_regularization_factor_ = 0.8; ty->face_types_[0].surface_tension_ = 0.3; ty->face_types_[1].surface_tension_ = 1.1; ty->face_types_[2].surface_tension_ = 0.5;
            ty->face_types_[0].bending_modulus_ = 0.4; ty->face_types_[1].bending_modulus_ = 0.2; ty->face_types_[2].bending_modulus_ = 1.5; break;
        default: break;
    }
    return ty;
}

struct Forces { std::vector<V3> f; std::vector<char> live; std::string err; double pressure = 0, target_area = 0, area = 0, ka = 0; std::vector<double> tension_of_face; };

// builds the real cell on mesh m, runs the selected real force routine, returns node forces
static Forces run_term(const sc::Mesh& m, Term t, cell_ptr* keep = nullptr) {
    Forces F; auto ty = type_for(t); cell_ptr c = sc::make_cell(m, 0, ty, true);
    for (unsigned i = 0; i < c->face_lst_.size(); i++) c->face_lst_[i].type_id_ = i % 3;
    c->update_all_face_normals_and_areas(); c->area_ = c->compute_area(); c->volume_ = c->compute_volume();
    for (node& n : c->node_lst_) n.force_.reset();
    switch (t) {
        case PRESSURE_POS: c->target_volume_ = 1.2 * c->volume_; c->update_pressure(); c->apply_pressure_on_surface(); break;
        case PRESSURE_NEG: c->target_volume_ = 0.8 * c->volume_; c->update_pressure(); c->apply_pressure_on_surface(); break;
        case PRESSURE_CAPPED: c->target_volume_ = 1.5 * c->volume_; c->update_pressure(); c->apply_pressure_on_surface(); break;
        case TENSION_UNIFORM: case TENSION_PER_TYPE: case ELASTICITY: case TENSION_AND_ELASTICITY: c->apply_surface_tension_and_membrane_elasticity(); break;
        case BENDING_UNIFORM: case BENDING_PER_TYPE: c->apply_bending_forces(); break;
        case ANGLES: c->regularize_all_face_angles(); break;
        case ALL_TOGETHER: c->target_volume_ = 1.1 * c->volume_; c->apply_internal_forces(0.0); break;
        default: break;
    }
    F.pressure = c->pressure_; F.target_area = c->target_area_; F.area = c->area_; F.ka = ty->area_elasticity_modulus_;
    F.f.resize(c->node_lst_.size()); F.live.resize(c->node_lst_.size());
    for (unsigned i = 0; i < c->node_lst_.size(); i++) { F.live[i] = c->node_lst_[i].is_used_; if (F.live[i]) F.f[i] = tov(c->node_lst_[i].force_); }
    for (const face& f : c->face_lst_) F.tension_of_face.push_back(f.is_used_ ? ty->face_types_[f.type_id_].surface_tension_ : 0.0);
    if (keep) *keep = c; else c->clear_data();
    return F;
}

// the oracle on one (mesh, term)
static std::string check_term(const sc::Mesh& m, Term t, double* worst = nullptr) {
    cell_ptr c; Forces F = run_term(m, t, &c); char buf[400]; std::string err;
    const size_t N = c->node_lst_.size();
    // centre and diameter
    V3 ctr; size_t nl = 0; for (unsigned i = 0; i < N; i++) if (F.live[i]) { ctr = ctr + tov(c->node_lst_[i].pos_); nl++; } ctr = ctr * (1.0L / nl);
    long double diam = 0; for (unsigned i = 0; i < N; i++) if (F.live[i]) diam = std::max(diam, 2 * norm(tov(c->node_lst_[i].pos_) - ctr));
    V3 net, torque; long double sumabs = 0; bool finite = true;
    for (unsigned i = 0; i < N; i++) if (F.live[i]) { net = net + F.f[i]; torque = torque + cross(tov(c->node_lst_[i].pos_) - ctr, F.f[i]); sumabs += norm(F.f[i]); if (!std::isfinite((double)norm(F.f[i]))) finite = false; }
    // natural magnitude of the term on this mesh; anything 1e-10 below it is rounding noise of a term that vanishes identically here
    long double nat = 0; { long double d = diam; switch (t) { case PRESSURE_POS: case PRESSURE_NEG: case PRESSURE_CAPPED: nat = 0.05L * d * d; break; case TENSION_UNIFORM: case TENSION_PER_TYPE: nat = 0.3L * d; break;
        case ELASTICITY: case TENSION_AND_ELASTICITY: nat = 0.1L * d; break; case BENDING_UNIFORM: case BENDING_PER_TYPE: nat = 0.2L / d; break; case ANGLES: nat = 0.8L / d; break; default: nat = 0.1L * d; } }
    if (sumabs < 1e-10L * nat * nl) sumabs = 0;
    if (!finite) err = "non-finite-force";
    else if (sumabs == 0) { if (worst) worst[1] += 1; /* e.g. angle regularisation on equilateral triangles: counted, vacuity is judged per term over the family */ }
    else {
        if (worst) { worst[0] = std::max(worst[0], (double)(norm(net) / sumabs)); worst[2] += 1; }
        if (norm(net) > 1e-9L * sumabs) { snprintf(buf, sizeof buf, "net-force-not-zero: |sum F| = %.3Lg of sum|F| = %.3Lg (ratio %.3Lg)", norm(net), sumabs, norm(net) / sumabs); err = buf; }
        else if (norm(torque) > 1e-9L * sumabs * diam) { snprintf(buf, sizeof buf, "net-torque-not-zero: |sum r x F| = %.3Lg of sum|F|*diam = %.3Lg (ratio %.3Lg)", norm(torque), sumabs * diam, norm(torque) / (sumabs * diam)); err = buf; }
    }
    if (err.empty() && (t == PRESSURE_POS || t == PRESSURE_NEG || t == PRESSURE_CAPPED)) {
        // F_i = p * dV/dx_i,  dV/dx_i = 1/6 sum over incident triangles (i,j,k) of (x_j - o) x (x_k - o), any origin o (closed surface)
        std::vector<V3> g(N);
        for (const face& f : c->face_lst_) { if (!f.is_used_) continue; unsigned id[3] = {f.n1_id_, f.n2_id_, f.n3_id_}; V3 p[3]; for (int k = 0; k < 3; k++) p[k] = tov(c->node_lst_[id[k]].pos_) - ctr;
            for (int k = 0; k < 3; k++) g[id[k]] = g[id[k]] + cross(p[(k + 1) % 3], p[(k + 2) % 3]) * (1.0L / 6); }
        // cross-check the closed form against central differences of the reference volume (guards the oracle)
        { unsigned probe = 0; while (!F.live[probe]) probe++; long double h = 1e-4L * diam; auto vol_at = [&](int axis, long double d) { long double v = 0; for (const face& f : c->face_lst_) { if (!f.is_used_) continue; unsigned id[3] = {f.n1_id_, f.n2_id_, f.n3_id_}; V3 p[3]; for (int k = 0; k < 3; k++) { p[k] = tov(c->node_lst_[id[k]].pos_) - ctr; if (id[k] == probe) { if (axis == 0) p[k].x += d; else if (axis == 1) p[k].y += d; else p[k].z += d; } }
                V3 cr = cross(p[1], p[2]); v += (p[0].x * cr.x + p[0].y * cr.y + p[0].z * cr.z) / 6; } return v; };
          long double fd[3]; for (int a = 0; a < 3; a++) fd[a] = (vol_at(a, h) - vol_at(a, -h)) / (2 * h); long double gg[3] = {g[probe].x, g[probe].y, g[probe].z};
          for (int a = 0; a < 3; a++) if (fabsl(fd[a] - gg[a]) > 1e-6L * diam * diam) { err = "INTERNAL closed-form volume gradient disagrees with finite differences"; } }
        long double scale = fabsl(F.pressure) * diam * diam;
        if (err.empty()) for (unsigned i = 0; i < N; i++) if (F.live[i]) { V3 d = F.f[i] - g[i] * F.pressure; if (norm(d) > 1e-9L * scale) { snprintf(buf, sizeof buf, "pressure-force-is-not-p-times-volume-gradient: node %u force (%.6Lg,%.6Lg,%.6Lg) expected (%.6Lg,%.6Lg,%.6Lg) p=%.6g", i, F.f[i].x, F.f[i].y, F.f[i].z, g[i].x * F.pressure, g[i].y * F.pressure, g[i].z * F.pressure, F.pressure); err = buf; break; } }
        if (err.empty() && t == PRESSURE_CAPPED && F.pressure != 0.05) { snprintf(buf, sizeof buf, "pressure-cap-not-applied: %.17g", F.pressure); err = buf; }
    }
    if (err.empty() && (t == TENSION_UNIFORM || t == TENSION_PER_TYPE || t == ELASTICITY || t == TENSION_AND_ELASTICITY)) {
        // F_i = - sum_f gamma_f dA_f/dx_i ; gamma_f = tension_f + (k_a/A_t)(A/A_t - 1) ; dA/dx_1 = 1/2 n x (x_3 - x_2)
        long double mem = F.ka > 0 ? (F.ka / F.target_area) * (F.area / F.target_area - 1.0) : 0.0L;
        std::vector<V3> ref(N); long double scale = 0; unsigned fi = 0;
        for (const face& f : c->face_lst_) { if (!f.is_used_) { fi++; continue; } unsigned id[3] = {f.n1_id_, f.n2_id_, f.n3_id_}; V3 p[3]; for (int k = 0; k < 3; k++) p[k] = tov(c->node_lst_[id[k]].pos_) - ctr;
            V3 nn = cross(p[1] - p[0], p[2] - p[0]); long double a2 = norm(nn); if (a2 == 0) { fi++; continue; } V3 n = nn * (1 / a2); long double gamma = F.tension_of_face[fi] + mem;
            for (int k = 0; k < 3; k++) { V3 dA = cross(n, p[(k + 2) % 3] - p[(k + 1) % 3]) * 0.5L; ref[id[k]] = ref[id[k]] - dA * gamma; scale = std::max(scale, norm(dA * gamma)); }
            fi++; }
        for (unsigned i = 0; i < N; i++) if (F.live[i]) { V3 d = F.f[i] - ref[i]; if (norm(d) > 1e-9L * (scale + 1e-300L)) { snprintf(buf, sizeof buf, "tension-elasticity-force-is-not-minus-gamma-times-area-gradient: node %u force (%.6Lg,%.6Lg,%.6Lg) expected (%.6Lg,%.6Lg,%.6Lg)", i, F.f[i].x, F.f[i].y, F.f[i].z, ref[i].x, ref[i].y, ref[i].z); err = buf; break; } }
    }
    c->clear_data();
    return err;
}

// equivariance: forces on R*X+t equal R * forces on X
// The bending law is discontinuous by design: hinges whose angle exceeds 135 degrees are skipped.  A mesh with a hinge exactly AT the
// threshold has no well-defined force (one ulp of input rounding decides the branch), so equivariance is not demanded of it.
static long g_skipped_at_threshold = 0;
static bool has_hinge_at_bending_threshold(const sc::Mesh& m) {
    std::map<std::pair<unsigned, unsigned>, std::vector<size_t>> ef; for (size_t f = 0; f < m.nf(); f++) for (int k = 0; k < 3; k++) ef[std::minmax(m.tri[3*f+k], m.tri[3*f+(k+1)%3])].push_back(f);
    auto nrm = [&](size_t f) { V3 p[3]; for (int k = 0; k < 3; k++) p[k] = {m.pos[3*m.tri[3*f+k]], m.pos[3*m.tri[3*f+k]+1], m.pos[3*m.tri[3*f+k]+2]}; V3 n = cross(p[1] - p[0], p[2] - p[0]); long double l = norm(n); return l > 0 ? n * (1 / l) : n; };
    for (auto& kv : ef) { if (kv.second.size() != 2) continue; V3 a = nrm(kv.second[0]), b = nrm(kv.second[1]); long double d = a.x * b.x + a.y * b.y + a.z * b.z; long double th = acosl(std::max(-1.0L, std::min(1.0L, d)));
        if (fabsl(th - 135.0L * 3.14159265358979323846L / 180.0L) < 1e-6L) return true; }
    return false;
}
static std::string check_equivariance(const sc::Mesh& m, Term t, const std::array<double, 9>& R, const std::array<double, 3>& tr) {
    if ((t == BENDING_UNIFORM || t == BENDING_PER_TYPE || t == ALL_TOGETHER) && has_hinge_at_bending_threshold(m)) { g_skipped_at_threshold++; return ""; }
    Forces A = run_term(m, t), B = run_term(sc::transformed(m, R, tr), t); char buf[300];
    long double scale = 0; for (size_t i = 0; i < A.f.size(); i++) if (A.live[i]) scale = std::max(scale, norm(A.f[i]));
    { long double d = 0; for (double v : m.pos) d = std::max(d, (long double)std::fabs(v)); d *= 2; long double nat = (t == ANGLES) ? 0.8L / d : (t == BENDING_UNIFORM || t == BENDING_PER_TYPE) ? 0.2L / d : 0; if (scale < 1e-10L * nat) return ""; }
    if (scale == 0) return "";
    // the hinge angle is obtained through acos of a dot product of unit normals: near flat hinges its conditioning is sqrt(eps)
    const long double tol = (t == BENDING_UNIFORM || t == BENDING_PER_TYPE || t == ALL_TOGETHER) ? 1e-6L : 1e-8L;
    for (size_t i = 0; i < A.f.size(); i++) if (A.live[i]) { V3 a = A.f[i]; V3 ra = {R[0] * a.x + R[1] * a.y + R[2] * a.z, R[3] * a.x + R[4] * a.y + R[5] * a.z, R[6] * a.x + R[7] * a.y + R[8] * a.z}; V3 d = B.f[i] - ra;
        if (norm(d) > tol * scale) { snprintf(buf, sizeof buf, "force-field-does-not-move-rigidly-with-the-cell: node %zu |F(RX+t) - R F(X)| = %.3Lg of %.3Lg", i, norm(d), scale); return buf; } }
    return "";
}

static long skipped_degenerate = 0;
static std::vector<sc::Mesh> mesh_family(bool th, long& from_bfs) {
    using namespace sc; std::vector<Mesh> fam = {octahedron(), bipyramid(), cube12(), icosahedron(), dented_cube(), icosphere(1), scaled(icosphere(1), 2, 1, 0.5)};
    fam.back().name = "ellipsoid_2_1_0.5"; if (th) fam.push_back(icosphere(2));
    // every distinct mesh a depth-2 BFS over {split, merge, swap} reaches from the octahedron and the cube (free slots, reused ids, valence-3 vertices)
    local_mesh_refiner lmr(0.5, 1.5, true); std::unordered_set<std::string> seen;
    for (Mesh seed : {octahedron(), cube12()}) {
        std::vector<std::vector<std::array<unsigned, 3>>> level = {{}};
        for (int depth = 0; depth < 2; depth++) { std::vector<std::vector<std::array<unsigned, 3>>> next;
            for (auto& h : level) { auto build = [&](const std::vector<std::array<unsigned, 3>>& hh) { cell_ptr c = make_cell(seed, 0, make_cell_type(0, 3), true); bool ok = true;
                    for (auto& o : hh) { auto eo = c->get_edge(o[1], o[2]); if (!eo) { ok = false; break; } edge e = *eo; edge_set es = c->get_edge_set(); try { if (o[0] == 0) lmr.split_edge(e, c, es); else if (o[0] == 1) lmr.merge_edge(e, c, es); else lmr.swap_edge(e, c); } catch (...) { ok = false; break; } }
                    if (!ok) { c->clear_data(); c.reset(); } return c; };
                cell_ptr c = build(h); if (!c) continue; std::vector<std::array<unsigned, 3>> ops;
                for (const edge& e : c->get_edge_set()) { ops.push_back({0, e.n1(), e.n2()}); ops.push_back({2, e.n1(), e.n2()}); edge ec = e; if (lmr.can_be_merged(ec, c)) ops.push_back({1, e.n1(), e.n2()}); }
                c->clear_data();
                for (auto& o : ops) { auto h2 = h; h2.push_back(o); cell_ptr c2 = build(h2); if (!c2) continue; if (!oracle_mesh(*c2).empty()) { c2->clear_data(); continue; }
                    { // zero-area (needle / collinear) triangles have no area gradient: outside the statement, as in the code itself
                      double mn = 1e300, sum = 0; size_t nfl = 0; for (const face& f : c2->face_lst_) if (f.is_used_) { const vec3 &A = c2->node_lst_[f.n1_id_].pos_, &B = c2->node_lst_[f.n2_id_].pos_, &C = c2->node_lst_[f.n3_id_].pos_; double a = 0.5 * (B - A).cross(C - A).norm(); mn = std::min(mn, a); sum += a; nfl++; }
                      if (mn < 1e-3 * sum / nfl) { skipped_degenerate++; c2->clear_data(); continue; } }
                    std::string key = canon_cell(*c2); if (seen.insert(key).second) { Mesh mm; mm.name = seed.name + "+bfs"; for (const node& n : c2->node_lst_) { mm.pos.push_back(n.pos_.dx()); mm.pos.push_back(n.pos_.dy()); mm.pos.push_back(n.pos_.dz()); }
                            // keep dead node slots (they stay unreferenced and are freed again by initialisation)
                            for (const face& f : c2->face_lst_) if (f.is_used_) { mm.tri.push_back(f.n1_id_); mm.tri.push_back(f.n2_id_); mm.tri.push_back(f.n3_id_); }
                            fam.push_back(mm); from_bfs++; next.push_back(h2); }
                    c2->clear_data(); } }
            level = next; if (!th && depth == 0) { /* quick: depth-2 layer only from a subset */ if (level.size() > 12) level.resize(12); } }
    }
    return fam;
}


// ------------------------------------------------------------------------------------------------ histories through the real entry point
// A living cell: forces are evaluated by cell::apply_internal_forces (what the solver calls every iteration) after the nodes have moved and the mesh has been split / collapsed /
// compacted since the previous evaluation.  Every sequence over the alphabet below up to the stated depth that ends in an evaluation is run on a fresh real cell; the resulting
// force field is compared with p*dV/dx - sum_f gamma_eff(f)*dA_f/dx computed from the CURRENT triangle list and node positions only.
enum HOp { H_FORCES = 0, H_SCALE, H_PULL, H_SHRINK, H_SPLIT, H_MERGE, H_REBASE, H_FAR, H_MERGE0, N_HOPS };
static const char* hop_name[] = {"apply_internal_forces", "stretch(1.15,1,0.9)", "pull_one_node", "shrink(0.85)", "split_longest_edge", "merge_shortest_edge", "rebase", "translate_by_half_a_million_sizes", "merge_an_edge_of_node_slot_0"};
static cell_type_param_ptr history_type(int pset) {
    auto ty = type_for(pset == 0 ? TENSION_AND_ELASTICITY : ALL_TOGETHER); ty->bulk_modulus_ = 2.5; ty->max_pressure_ = 1e30; return ty;
}
struct HistStat { long far_with_slot0_free = 0, evaluations = 0, with_free_face_slots = 0, with_live_face_beyond_live_count = 0, after_displacement = 0, dead = 0; };
static std::string run_history(const sc::Mesh& seed, const std::vector<int>& h, int pset, HistStat* st = nullptr) {
    char buf[500]; auto ty = history_type(pset); cell_ptr c = sc::make_cell(seed, 0, ty, true); for (unsigned i = 0; i < c->face_lst_.size(); i++) c->face_lst_[i].type_id_ = i % 3;
    c->target_volume_ = 1.1 * c->compute_volume(); local_mesh_refiner lmr(1e-3, 1e3, true); std::string err; bool moved = false;
    auto live_centroid = [&]() { V3 s; size_t n = 0; for (const node& nd : c->node_lst_) if (nd.is_used_) { s = s + tov(nd.pos_); n++; } return s * (1.0L / n); };
    for (size_t step = 0; step < h.size() && err.empty(); step++) { const int op = h[step];
        switch (op) {
            case H_SCALE: case H_SHRINK: { V3 o = live_centroid(); double sx = op == H_SCALE ? 1.15 : 0.85, sy = op == H_SCALE ? 1.0 : 0.85, sz = op == H_SCALE ? 0.9 : 0.85;
                for (node& nd : c->node_lst_) if (nd.is_used_) nd.pos_ = vec3((double)o.x + sx * (nd.pos_.dx() - (double)o.x), (double)o.y + sy * (nd.pos_.dy() - (double)o.y), (double)o.z + sz * (nd.pos_.dz() - (double)o.z)); moved = true; break; }
            case H_PULL: { V3 o = live_centroid(); node* far = nullptr; for (node& nd : c->node_lst_) if (nd.is_used_ && (!far || nd.pos_.dx() > far->pos_.dx())) far = &nd; far->pos_ = vec3(far->pos_.dx() + 0.3 * (far->pos_.dx() - (double)o.x), far->pos_.dy() + 0.1, far->pos_.dz()); moved = true; break; }
            case H_FAR: { for (node& nd : c->node_lst_) if (nd.is_used_) nd.pos_ = vec3(nd.pos_.dx() + 393216.0, nd.pos_.dy() - 262144.0, nd.pos_.dz() + 524288.0); moved = true; break; }
            case H_SPLIT: case H_MERGE: case H_MERGE0: { std::optional<edge> pick; double best = op == H_SPLIT ? -1 : 1e300;
                for (const edge& e : c->get_edge_set()) { if (op == H_MERGE0 && !(c->node_lst_[0].is_used_ && (e.n1() == 0 || e.n2() == 0))) continue; double l2 = (c->node_lst_[e.n1()].pos_ - c->node_lst_[e.n2()].pos_).squared_norm(); if (op == H_SPLIT ? l2 > best : l2 < best) { if (op != H_SPLIT) { edge ec = e; bool can = false; try { can = lmr.can_be_merged(ec, c); } catch (...) {} if (!can) continue; } best = l2; pick = e; } }
                if (!pick) { sc::release(c); if (st) st->dead++; return "dead"; } edge e = *pick; edge_set es = c->get_edge_set();
                try { if (op == H_SPLIT) lmr.split_edge(e, c, es); else lmr.merge_edge(e, c, es); } catch (...) { sc::release(c); if (st) st->dead++; return "dead"; }
                sc::OracleOpts oo; oo.check_cached_geometry = false; oo.flat_is_error = false; if (!sc::oracle_mesh(*c, oo).empty()) { sc::release(c); if (st) st->dead++; return "dead"; }   // an invalid mesh is C01's business
                break; }
            case H_REBASE: try { c->rebase(); } catch (...) { sc::release(c); if (st) st->dead++; return "dead"; } break;
            case H_FORCES: { for (node& nd : c->node_lst_) nd.force_.reset(); c->apply_internal_forces(0.0);
                if (step + 1 != h.size()) { moved = false; break; }          // prefixes are judged as their own histories
                const size_t N = c->node_lst_.size(); V3 ctr = live_centroid(); long double diam = 0; for (const node& nd : c->node_lst_) if (nd.is_used_) diam = std::max(diam, 2 * norm(tov(nd.pos_) - ctr));
                size_t nlive_faces = 0, last_live = 0; for (size_t i = 0; i < c->face_lst_.size(); i++) if (c->face_lst_[i].is_used_) { nlive_faces++; last_live = i; }
                if (st) { st->evaluations++; if (nlive_faces < c->face_lst_.size()) st->with_free_face_slots++; if (last_live >= nlive_faces) st->with_live_face_beyond_live_count++; if (moved) st->after_displacement++; }
                // degenerate (needle) triangles have no area gradient: outside the statement
                long double A = 0, mn = 1e300L; for (const face& f : c->face_lst_) if (f.is_used_) { V3 p0 = tov(c->node_lst_[f.n1_id_].pos_), p1 = tov(c->node_lst_[f.n2_id_].pos_), p2 = tov(c->node_lst_[f.n3_id_].pos_); long double a = 0.5L * norm(cross(p1 - p0, p2 - p0)); A += a; mn = std::min(mn, a); }
                if (mn < 1e-3L * A / nlive_faces) { sc::release(c); if (st) st->dead++; return "dead"; }
                V3 net, torque; long double sumabs = 0; for (unsigned i = 0; i < N; i++) if (c->node_lst_[i].is_used_) { V3 f = tov(c->node_lst_[i].force_); net = net + f; torque = torque + cross(tov(c->node_lst_[i].pos_) - ctr, f); sumabs += norm(f); if (!std::isfinite((double)norm(f))) err = "non-finite-force"; }
                if (err.empty() && sumabs > 0 && norm(net) > 1e-9L * sumabs) { snprintf(buf, sizeof buf, "net-force-not-zero: |sum F| = %.3Lg of sum|F| = %.3Lg", norm(net), sumabs); err = buf; }
                if (err.empty() && sumabs > 0 && norm(torque) > 1e-9L * sumabs * diam) { snprintf(buf, sizeof buf, "net-torque-not-zero: |sum r x F| = %.3Lg of sum|F|*diam = %.3Lg", norm(torque), sumabs * diam); err = buf; }
                { long double V = 0; for (const face& f : c->face_lst_) if (f.is_used_) { V3 q0 = tov(c->node_lst_[f.n1_id_].pos_) - ctr, q1 = tov(c->node_lst_[f.n2_id_].pos_) - ctr, q2 = tov(c->node_lst_[f.n3_id_].pos_) - ctr; V += dot(q0, cross(q1, q2)) / 6; }
                  if (err.empty() && fabsl((long double)c->volume_ - V) > 1e-9L * diam * diam * diam) { snprintf(buf, sizeof buf, "volume-behind-the-pressure-is-not-the-volume-of-the-current-mesh: the cell holds %.12g, the triangles enclose %.12Lg (node slot 0 %s, centre (%.6Lg,%.6Lg,%.6Lg))", c->volume_, V, c->node_lst_[0].is_used_ ? "live" : "free", ctr.x, ctr.y, ctr.z); err = buf; }
                  if (st && !c->node_lst_[0].is_used_ && fabsl(ctr.x) > 1e5L) st->far_with_slot0_free++; }
                if (err.empty() && pset == 0) {
                    const long double p = c->pressure_, A0 = c->target_area_, ka = ty->area_elasticity_modulus_, mem = (ka / A0) * (A / A0 - 1.0L); std::vector<V3> ref(N); long double scale = fabsl(p) * diam * diam;
                    for (const face& f : c->face_lst_) { if (!f.is_used_) continue; unsigned id[3] = {f.n1_id_, f.n2_id_, f.n3_id_}; V3 q[3]; for (int k = 0; k < 3; k++) q[k] = tov(c->node_lst_[id[k]].pos_) - ctr;
                        V3 nn = cross(q[1] - q[0], q[2] - q[0]); long double a2 = norm(nn); V3 n = nn * (1 / a2); long double gamma = ty->face_types_[f.type_id_].surface_tension_ + mem;
                        for (int k = 0; k < 3; k++) { V3 dV = cross(q[(k + 1) % 3], q[(k + 2) % 3]) * (1.0L / 6); V3 dA = cross(n, q[(k + 2) % 3] - q[(k + 1) % 3]) * 0.5L; ref[id[k]] = ref[id[k]] + dV * p - dA * gamma; scale = std::max(scale, norm(dA * gamma)); } }
                    for (unsigned i = 0; i < N && err.empty(); i++) if (c->node_lst_[i].is_used_) { V3 f = tov(c->node_lst_[i].force_); if (norm(f - ref[i]) > 1e-9L * (scale + 1e-300L)) {
                        snprintf(buf, sizeof buf, "force-of-a-living-cell-is-not-p-dV-minus-gamma-dA-of-the-current-mesh: node %u force (%.9Lg,%.9Lg,%.9Lg) expected (%.9Lg,%.9Lg,%.9Lg) [pressure %.6Lg, current area %.9Lg, area cached by the cell %.9g]", i, f.x, f.y, f.z, ref[i].x, ref[i].y, ref[i].z, p, A, c->area_); err = buf; } }
                }
                break; }
        }
    }
    sc::release(c); return err;
}
static std::string htext(const std::vector<int>& h) { std::string s; for (int v : h) s += char('0' + v); return s; }
static std::string hjson(const std::vector<int>& h) { std::string s = "["; for (size_t i = 0; i < h.size(); i++) s += std::string(i ? "," : "") + "\"" + hop_name[h[i]] + "\""; return s + "]"; }

static std::string mtext(const sc::Mesh& m) { return sc::mesh_to_text(m); }

static void explore(Result& R) {
    const bool th = R.args.thorough(); long from_bfs = 0; auto fam = mesh_family(th, from_bfs);
    auto rots = sc::cube_rotations(); std::vector<std::array<double, 9>> RR = {sc::ID3, rots[9], sc::rot_z_345(), sc::matmul(sc::rot_x_51213(), sc::rot_z_345())}; if (th) for (int i : {3, 14, 17, 22}) RR.push_back(rots[i]);
    std::vector<std::array<double, 3>> TT = {{0, 0, 0}, {0.25, 0.25, -0.25}, {8, -8, 8}}; std::vector<double> SS = {1.0, 1e-5, 1e-9};   /* the last one: triangles of ~1e-19 in area, far below every absolute tolerance a double-precision code could be tempted to use */
    long evals = 0, cases = 0; double wn[3] = {0, 0, 0}; std::map<int, long> nonzero_per_term;
    for (size_t mi = 0; mi < fam.size(); mi++) { if (R.out_of_time(0.9)) { R.cap("deadline"); break; }
        double size = 0; for (double v : fam[mi].pos) size = std::max(size, std::fabs(v)); size *= 2;
        for (int ti = 0; ti < NTERMS; ti++) {
            bool small = mi >= 8 && !th;   // BFS meshes: fewer placements in the quick tier
            for (size_t ri = 0; ri < (small ? 2 : RR.size()); ri++) for (size_t tj = 0; tj < (small ? 2 : TT.size()); tj++) for (double s : SS) {
                std::array<double, 3> tr = {TT[tj][0] * size * s, TT[tj][1] * size * s, TT[tj][2] * size * s}; sc::Mesh m = sc::transformed(fam[mi], RR[ri], tr, s); cases++; evals++;
                double before = wn[2]; std::string e = check_term(m, (Term)ti, wn); if (wn[2] > before) nonzero_per_term[ti]++;
                if (e.rfind("INTERNAL", 0) == 0) { R.internal_error = e + " [" + fam[mi].name + ", " + term_name[ti] + "]"; return; }
                if (!e.empty()) R.violation(clause_of(e) + "|" + term_name[ti], "mesh " + fam[mi].name + " (" + std::to_string(fam[mi].nv()) + " node slots), term " + term_name[ti] + ": " + e, "mode=term\nterm=" + std::to_string(ti) + "\nmesh=" + mtext(m) + "\n");
                R.tables["evaluations_per_term"][term_name[ti]]++;
            }
            // equivariance against the untransformed mesh
            for (size_t ri = 1; ri < (mi >= 8 && !th ? 2 : RR.size()); ri++) { std::array<double, 3> tr = {0.25 * size, -8 * size, 8 * size}; evals += 2; cases++;
                std::string e = check_equivariance(fam[mi], (Term)ti, RR[ri], tr);
                if (!e.empty()) R.violation(clause_of(e) + "|" + term_name[ti], "mesh " + fam[mi].name + ", term " + term_name[ti] + ", rotation #" + std::to_string(ri) + ": " + e, "mode=equiv\nterm=" + std::to_string(ti) + "\nrot=" + std::to_string(ri) + "\nsize=" + dhex(size) + "\nmesh=" + mtext(fam[mi]) + "\n"); }
        }
        if (mi % 40 == 0) R.sample("{\"mesh\":\"" + fam[mi].name + "\",\"node_slots\":" + std::to_string(fam[mi].nv()) + ",\"triangles\":" + std::to_string(fam[mi].nf()) + "}");
    }
    // histories on a living cell, every sequence up to the depth that ends in an evaluation
    { HistStat st; long hist = 0; const int depth = th ? 5 : 4; std::vector<sc::Mesh> seeds = {sc::octahedron(), sc::cube12(), sc::icosphere(1)};
      for (size_t si = 0; si < seeds.size(); si++) for (int pset = 0; pset < 2; pset++) { std::vector<int> h; std::function<void()> rec = [&]() {
            if (!h.empty() && h.back() == H_FORCES) { hist++; evals++; cases++; std::string e = run_history(seeds[si], h, pset, &st); if (e == "dead") return;
                if (!e.empty()) R.violation(clause_of(e) + "|history|" + hop_name[h.size() >= 2 ? h[h.size() - 2] : 0], "seed " + seeds[si].name + ", parameter set " + std::to_string(pset) + ", history " + hjson(h) + ": " + e, "mode=history\npset=" + std::to_string(pset) + "\nhist=" + htext(h) + "\nmesh=" + mtext(seeds[si]) + "\n");
                if (hist % 700 == 1) R.sample("{\"seed\":\"" + seeds[si].name + "\",\"parameter_set\":" + std::to_string(pset) + ",\"history\":" + hjson(h) + "}"); }
            if ((int)h.size() >= depth || R.out_of_time(0.95)) return;
            for (int op = 0; op < N_HOPS; op++) { if (!h.empty() && h.back() == H_REBASE && op == H_REBASE) continue; h.push_back(op); rec(); h.pop_back(); } };
          rec(); }
      if (R.out_of_time(0.95)) R.cap("deadline in the history block");
      R["history_evaluations_far_from_the_origin_with_node_slot_0_free"] = st.far_with_slot0_free; R["history_evaluations"] = st.evaluations; R["history_evaluations_with_free_face_slots"] = st.with_free_face_slots; R["history_evaluations_with_a_live_face_stored_beyond_the_live_count"] = st.with_live_face_beyond_live_count; R["history_evaluations_after_a_displacement"] = st.after_displacement; R["histories_ended_by_refusal_or_degenerate_mesh"] = st.dead;
      if (R.violations.empty() && (!st.with_live_face_beyond_live_count || !st.after_displacement)) R.internal_error = "history block vacuous"; }
    R["evaluations"] = evals; R["transitions"] = evals; R["states"] = cases; R["distinct_nontrivial"] = (long)wn[2] + R["history_evaluations_after_a_displacement"]; R["traces_validated_against_impl"] = evals; R["meshes"] = fam.size(); R["meshes_from_remeshing_bfs"] = from_bfs; R["bfs_meshes_skipped_for_zero_area_triangles"] = skipped_degenerate; R["equivariance_checks_skipped_hinge_exactly_at_135_degree_cutoff"] = g_skipped_at_threshold;
    R.reals["worst_net_force_ratio"] = wn[0]; R["cases_with_identically_zero_force"] = (long)wn[1];
    for (int ti = 0; ti < NTERMS; ti++) { R.tables["cases_with_nonzero_force_per_term"][term_name[ti]] = nonzero_per_term[ti]; if (!nonzero_per_term[ti] && R.exhaustive) R.internal_error = std::string("term never produced a force (vacuous): ") + term_name[ti]; }
    R.strings["rule"] = "distinct_nontrivial = cases (distinct tuples by construction) in which the term produced a non-zero force field, plus history evaluations that follow a displacement; a case = (mesh, rotation, translation, scale, force term); the real force routine is run on a freshly initialised cell and node::force() compared with closed-form references (volume gradient cross-checked by finite differences, area gradients), net force/torque, and the same term on the rigidly moved mesh; the mesh family contains every distinct mesh reached by a depth-2 BFS over split/merge/swap from octahedron and cube; history block: every sequence over {apply_internal_forces, stretch, pull a node, shrink, split longest edge, merge shortest edge, rebase} up to the depth that ends in an evaluation, on 3 seeds x 2 parameter sets, through cell::apply_internal_forces on the living cell (stale caches, free slots)";
    R.assumptions = {"tolerances: net force 1e-9*sum|F|, torque 1e-9*sum|F|*diameter, per-node forces 1e-9 of the largest contribution, equivariance 1e-8", "bending and angle regularisation: only net force, net torque and equivariance (their energies are not stated by the property)", "zero-area triangles are skipped as the code does by design", "the bending law is discontinuous at the 135 degree hinge cut-off by design: equivariance is not demanded of meshes with a hinge within 1e-6 rad of the cut-off (counted)", "effective tension of a face = face-type tension + (k_a/A_t)(A/A_t-1) with A_t the cell's own target area"};
}

static int replay(const Replay& rp, Result& R) {
    sc::Mesh m = sc::mesh_from_text(rp.get("mesh")); Term t = (Term)rp.geti("term"); std::string e1, e2;
    if (rp.get("mode") == "history") { std::vector<int> h; for (char ch : rp.get("hist")) h.push_back(ch - '0'); e1 = run_history(m, h, (int)rp.geti("pset")); e2 = run_history(m, h, (int)rp.geti("pset")); printf("history %s\n", hjson(h).c_str()); }
    else if (rp.get("mode") == "term") { e1 = check_term(m, t); e2 = check_term(m, t); }
    else { auto rots = sc::cube_rotations(); std::vector<std::array<double, 9>> RR = {sc::ID3, rots[9], sc::rot_z_345(), sc::matmul(sc::rot_x_51213(), sc::rot_z_345())}; for (int i : {3, 14, 17, 22}) RR.push_back(rots[i]); double size = rp.getd("size"); std::array<double, 3> tr = {0.25 * size, -8 * size, 8 * size}; e1 = check_equivariance(m, t, RR[rp.geti("rot")], tr); e2 = check_equivariance(m, t, RR[rp.geti("rot")], tr); }
    if (e1 != e2) { printf("replay diverged\n"); return 0; } printf("term %s: %s\n", term_name[t], e1.c_str());
    if (!e1.empty()) { R.violation(clause_of(e1), e1, ""); return 1; } return 0;
}
int main(int argc, char** argv) { return run_main(argc, argv, "C02", explore, replay); }
