// C06 — the broad phase discards only node-triangle pairs beyond the cut-off (engine E2, hooks H1 + H4; 3 builds).
// Lattice of 2-3 cell placements x global translations x cut-offs x voxel alignments x type pairs; oracle (a): every pair within
// the cut-off that passes the model's own pre-filters is handed to the narrow phase (H4 reports); oracle (b): forces after run()
// equal an all-pairs application of the model's own narrow-phase routine on a cloned tissue.
#include "contact_common.hpp"
#include "local_mesh_refiner.hpp"
using namespace vf; using namespace cx;

struct Config { int mesh_a, mesh_b, mesh_c; int ox, oy, oz; int gt; int cut; int lmin; int tp; double size_b; int hist = 0; };   // offsets in half cell sizes; mesh_c = -1: two cells
static std::vector<sc::Mesh> g_meshes;
static const double GT[4][3] = {{0, 0, 0}, {1024.25, 1024.25, 1024.25}, {-1024.25, 512.5, -2048.75}, {-0.5, -0.5, -0.5}};
static const double CUT_ADH[3] = {0.1, 0.5, 0.25}, CUT_REP[3] = {0.1, 0.25, 0.5}, LMIN[2] = {0.2, 1.0};
static const int TYPE_PAIRS[6][2] = {{0, 0}, {0, 1}, {1, 0}, {0, 2}, {3, 0}, {0, 4}};

static const char* HIST_NAME[3] = {"fresh cells", "first cell after a real edge collapse (free face and node slots at the head of the population)", "both cells after a real edge collapse, persistent ids as after a removal"};
static long g_free_slot_configs = 0;
static std::string cfg_text(const Config& c) { std::ostringstream o; o << c.mesh_a << " " << c.mesh_b << " " << c.mesh_c << " " << c.ox << " " << c.oy << " " << c.oz << " " << c.gt << " " << c.cut << " " << c.lmin << " " << c.tp << " " << dhex(c.size_b) << " " << c.hist; return o.str(); }
static Config cfg_parse(const std::string& s) { std::istringstream i(s); Config c; std::string h; i >> c.mesh_a >> c.mesh_b >> c.mesh_c >> c.ox >> c.oy >> c.oz >> c.gt >> c.cut >> c.lmin >> c.tp >> h; c.size_b = strtod(h.c_str(), 0); if (!(i >> c.hist)) c.hist = 0; return c; }
static std::string cfg_json(const Config& c) { std::ostringstream o; o << "{\"meshes\":[\"" << g_meshes[c.mesh_a].name << "\",\"" << g_meshes[c.mesh_b].name << "\"" << (c.mesh_c >= 0 ? ",\"" + g_meshes[c.mesh_c].name + "\"" : "") << "],\"offset_in_half_sizes\":[" << c.ox << "," << c.oy << "," << c.oz << "],\"global_translation\":" << c.gt << ",\"cutoff_adhesion\":" << CUT_ADH[c.cut] << ",\"cutoff_repulsion\":" << CUT_REP[c.cut] << ",\"min_edge_len\":" << LMIN[c.lmin] << ",\"cell_types\":[" << TYPE_PAIRS[c.tp][0] << "," << TYPE_PAIRS[c.tp][1] << "],\"size_of_second_cell\":" << c.size_b << "}"; return o.str(); }

static std::vector<cell_ptr> build(const Config& c) {
    std::vector<cell_ptr> cells; auto mk = [&](int mesh, double size, double tx, double ty, double tz, short type, unsigned id) { auto t = sc::make_cell_type(type, 3); t->surface_coupling_max_curvature_ = 1e30; for (auto& f : t->face_types_) { f.adherence_strength_ = 2.0; f.repulsion_strength_ = 3.0; }
        sc::Mesh m = sc::scaled(g_meshes[mesh], size, size, size); m = sc::translated(m, tx + GT[c.gt][0], ty + GT[c.gt][1], tz + GT[c.gt][2]); cells.push_back(sc::make_cell(m, id, t, true)); };
    mk(c.mesh_a, 1.0, 0, 0, 0, TYPE_PAIRS[c.tp][0], 0);
    mk(c.mesh_b, c.size_b, 0.5 * c.ox, 0.5 * c.oy, 0.5 * c.oz, TYPE_PAIRS[c.tp][1], 1);
    if (c.mesh_c >= 0) mk(c.mesh_c, 1.0, -0.5 * c.oy, 0.5 * c.oz, 0.75 * c.ox, 0, 2);
    // history: what remeshing leaves behind between two contact phases (no rebase in between)
    if (c.hist) { local_mesh_refiner lmr(1e-3, 1e3, true); for (unsigned k = 0; k < (c.hist == 2 ? 2u : 1u); k++) { cell_ptr x = cells[k]; bool merged = false;
            for (int attempt = 0; attempt < 2 && !merged; attempt++) { for (const edge& e0 : x->get_edge_set()) { edge e = e0; bool can = false; try { can = lmr.can_be_merged(e, x); } catch (...) {} if (!can) continue; edge_set es = x->get_edge_set(); try { lmr.merge_edge(e, x, es); merged = true; } catch (...) {} break; }
                if (!merged && attempt == 0) { edge e = *x->get_edge_set().begin(); edge_set es = x->get_edge_set(); try { lmr.split_edge(e, x, es); } catch (...) {} } } } }
    prepare(cells, c.hist == 2 ? 1 : 0); return cells;
}

struct Stat { long configs_with_pair_within = 0; long pairs_within = 0, candidates = 0, narrow_calls = 0, nonzero_force_cases = 0; };

static std::string run_config(const Config& c, Stat* st = nullptr) { const long pairs_before = st ? st->pairs_within : 0;
    global_simulation_parameters sp = sc::make_sim_params("unused", LMIN[c.lmin]); sp.contact_cutoff_adhesion_ = CUT_ADH[c.cut]; sp.contact_cutoff_repulsion_ = CUT_REP[c.cut];
    const double cutoff = std::max(CUT_ADH[c.cut], CUT_REP[c.cut]); char buf[400]; std::string err;
    std::vector<cell_ptr> cells = build(c), clone = build(c);
    Model model(sp), model_ref(sp);
    if (st) for (auto& x : cells) { if (x->get_nb_of_faces() < x->face_lst_.size()) { g_free_slot_configs++; break; } }
    zero_forces(cells); candidates().clear(); collecting() = true; model.run(cells); collecting() = false;
    // (a) every pair within the cut-off that passes the model's own pre-filters must have reached the narrow phase.
    // The clone carries the same (pre-run) geometry: the coupling models move coupled nodes at the end of run().
    for (unsigned i = 0; i < clone.size() && err.empty(); i++) for (unsigned ni = 0; ni < clone[i]->node_lst_.size() && err.empty(); ni++) { node& n = clone[i]->node_lst_[ni]; if (!n.is_used_ || !node_prefilter(*clone[i], n)) continue;
        for (unsigned j = 0; j < clone.size() && err.empty(); j++) { if (i == j) continue; for (unsigned fi = 0; fi < clone[j]->face_lst_.size(); fi++) { face& f = clone[j]->face_lst_[fi]; if (!f.is_used_) continue;
            long double d2 = dist2_point_triangle(n.pos_, clone[j]->node_lst_[f.n1_id_].pos_, clone[j]->node_lst_[f.n2_id_].pos_, clone[j]->node_lst_[f.n3_id_].pos_);
            if (d2 > (long double)cutoff * cutoff * (1 - 1e-9L)) continue; if (!pair_prefilter(n, f)) continue; if (st) st->pairs_within++;
            if (!candidates().count({&cells[i]->node_lst_[ni], &cells[j]->face_lst_[fi]})) { snprintf(buf, sizeof buf, "pair-within-cutoff-not-presented-to-the-contact-rules: node %u of cell %u and face %u of cell %u at distance %.6Lg (cut-off %.6g)", ni, i, fi, j, sqrtl(d2), cutoff); err = buf; break; } } } }
    if (st) { st->candidates += (long)candidates().size(); if (st->pairs_within > pairs_before) st->configs_with_pair_within++; }
    // (b) all-pairs reference with the model's own narrow phase (order-dependent couplings between epithelial cells excluded)
    bool epi_pair = (CONTACT_MODEL_INDEX != 0) && TYPE_PAIRS[c.tp][0] == 0 && (TYPE_PAIRS[c.tp][1] == 0 || c.mesh_c >= 0);
    if (err.empty() && !epi_pair) {
        zero_forces(clone);
        for (unsigned i = 0; i < clone.size(); i++) for (node& n : clone[i]->node_lst_) { if (!n.is_used_ || !node_prefilter(*clone[i], n)) continue;
            for (unsigned j = 0; j < clone.size(); j++) { if (i == j) continue; for (face& f : clone[j]->face_lst_) { if (!f.is_used_ || !pair_prefilter(n, f)) continue; narrow(model_ref, clone[i], clone[j], n, &f); if (st) st->narrow_calls++; } } }
        ForceSnap A = forces_of(cells), B = forces_of(clone); double scale = 0; for (auto& v : B.f) for (auto& x : v) scale = std::max(scale, x.norm()); if (scale > 0 && st) st->nonzero_force_cases++;
        for (unsigned i = 0; i < cells.size() && err.empty(); i++) for (unsigned k = 0; k < A.f[i].size(); k++) { vec3 d = A.f[i][k] - B.f[i][k]; if (d.norm() > 1e-9 * (scale + 1e-300)) { snprintf(buf, sizeof buf, "contact-forces-differ-from-all-pairs-application-of-the-same-rules: cell %u node %u: (%.9g,%.9g,%.9g) vs (%.9g,%.9g,%.9g)", i, k, A.f[i][k].dx(), A.f[i][k].dy(), A.f[i][k].dz(), B.f[i][k].dx(), B.f[i][k].dy(), B.f[i][k].dz()); err = buf; break; } }
    }
    for (auto& x : cells) x->clear_data(); for (auto& x : clone) x->clear_data();
    return err;
}

// a tissue with more faces than a 16-bit counter can number (and more nodes than 32767): a row of 16 icospheres of 5120 faces, alternating epithelial / lumen, each dipping 0.1 into
// the next.  The reference only visits the nodes that lie within cut-off + faceting error of a neighbouring sphere (the others are farther than the cut-off from every foreign face).
static std::string run_large(Stat* st) {
    const int NC = 16; std::vector<cell_ptr> cells, clone; auto mk = [&](std::vector<cell_ptr>& out) { for (int i = 0; i < NC; i++) { auto t = sc::make_cell_type(i % 2 ? 2 : 0, 3); t->surface_coupling_max_curvature_ = 1e30; for (auto& f : t->face_types_) { f.adherence_strength_ = 2.0; f.repulsion_strength_ = 3.0; } out.push_back(sc::make_cell(sc::translated(sc::icosphere(4), 1.9 * i, 0.02 * (i % 3), -0.01 * (i % 2)), (unsigned)i, t, true)); } prepare(out); };
    mk(cells); mk(clone); size_t nfaces = 0, nnodes = 0; for (auto& c : cells) { nfaces += c->get_nb_of_faces(); nnodes += c->get_nb_of_nodes(); } if (nfaces <= 65536 || nnodes <= 32767) return "INTERNAL the large tissue is not large enough";
    global_simulation_parameters sp = sc::make_sim_params("unused", 0.05); sp.contact_cutoff_adhesion_ = 0.08; sp.contact_cutoff_repulsion_ = 0.08; const double cutoff = 0.08; Model model(sp), model_ref(sp); char buf[400]; std::string err;
    zero_forces(cells); candidates().clear(); collecting() = true; model.run(cells); collecting() = false;
    zero_forces(clone); long within = 0;
    for (int i = 0; i < NC && err.empty(); i++) for (int j = std::max(0, i - 1); j <= std::min(NC - 1, i + 1) && err.empty(); j++) { if (i == j) continue; const vec3 cj(1.9 * j, 0.02 * (j % 3), -0.01 * (j % 2));
        for (unsigned ni = 0; ni < clone[i]->node_lst_.size() && err.empty(); ni++) { node& n = clone[i]->node_lst_[ni]; if (!n.is_used_ || !node_prefilter(*clone[i], n)) continue; const double r = (n.pos_ - cj).norm(); if (r > 1.0 + cutoff + 0.01 || r < 1.0 - cutoff - 0.02) continue;
            for (unsigned fi = 0; fi < clone[j]->face_lst_.size(); fi++) { face& f = clone[j]->face_lst_[fi]; if (!f.is_used_) continue; const vec3& a = clone[j]->node_lst_[f.n1_id_].pos_; if ((a - n.pos_).squared_norm() > 0.04) continue;   // faces of a 5120-face unit icosphere are < 0.08 wide
                long double d2 = dist2_point_triangle(n.pos_, a, clone[j]->node_lst_[f.n2_id_].pos_, clone[j]->node_lst_[f.n3_id_].pos_); if (!pair_prefilter(n, f)) continue;
                if (d2 <= (long double)cutoff * cutoff * (1 - 1e-9L)) { within++; if (!candidates().count({&cells[i]->node_lst_[ni], &cells[j]->face_lst_[fi]})) { snprintf(buf, sizeof buf, "pair-within-cutoff-not-presented-to-the-contact-rules: node %u of cell %d and face %u of cell %d (global face number %zu) at distance %.6Lg (cut-off %.6g), tissue of %zu faces", ni, i, fi, j, (size_t)j * 5120 + fi, sqrtl(d2), cutoff, nfaces); err = buf; break; } }
                narrow(model_ref, clone[i], clone[j], n, &f); } } }
    if (err.empty() && !within) err = "INTERNAL no pair within the cut-off in the large tissue";
    if (err.empty()) { ForceSnap A = forces_of(cells), B = forces_of(clone); double scale = 0; for (auto& v : B.f) for (auto& x : v) scale = std::max(scale, x.norm());
        for (unsigned i = 0; i < cells.size() && err.empty(); i++) for (unsigned k = 0; k < A.f[i].size(); k++) { vec3 d = A.f[i][k] - B.f[i][k]; if (d.norm() > 1e-9 * (scale + 1e-300)) { snprintf(buf, sizeof buf, "contact-forces-differ-from-all-pairs-application-of-the-same-rules: large tissue, cell %u node %u: (%.9g,%.9g,%.9g) vs (%.9g,%.9g,%.9g)", i, k, A.f[i][k].dx(), A.f[i][k].dy(), A.f[i][k].dz(), B.f[i][k].dx(), B.f[i][k].dy(), B.f[i][k].dz()); err = buf; break; } } }
    if (st) { st->pairs_within += within; st->candidates += (long)candidates().size(); }
    for (auto& x : cells) x->clear_data(); for (auto& x : clone) x->clear_data(); candidates().clear();
    return err;
}

static void setup() { using namespace sc; g_meshes = {octahedron(), translated(cube12(), -0.5, -0.5, -0.5), icosphere(1)}; g_meshes[1].name = "cube12_centred"; }

static void explore(Result& R) {
    const bool th = R.args.thorough(); setup(); Stat st; long configs = 0;
    int step = th ? 1 : 2;                       // offset lattice -4..4 half sizes: every point (thorough) / every second (quick)
    for (int ma = 0; ma < 3; ma++) for (int mb = 0; mb < 3; mb++) { if (!th && (ma + mb) % 2 && ma != 2) continue;
      for (int ox = -4; ox <= 4; ox += step) for (int oy = -4; oy <= 4; oy += 2 * step) for (int oz = -4; oz <= 4; oz += 2 * step) for (int gt = 0; gt < 4; gt++) for (int cut = 0; cut < 3; cut++) for (int lm = 0; lm < 2; lm++) for (int tp = 0; tp < 6; tp++) for (double sb : {1.0, 0.4}) for (int hi = 0; hi < 3; hi++) {
        if (!th && ((gt + cut + lm + tp + (sb < 1) + hi) % 3 != (ox + oy + 8) % 3)) continue; if (th && hi && ((gt + cut + lm + tp + (sb < 1) + hi + ox + oy + oz + 12) % 3)) continue;   /* thorough: every fresh configuration, a regular third of each remeshed one */     // quick: a regular third of the product (every value of every factor still occurs with every offset)
        if (R.out_of_time(0.9)) { R.cap("deadline"); goto done; }
        int mc = (tp == 1 && cut == 1) ? 2 : -1; if (mc >= 0 && !th && ox % 4) mc = -1;
        Config c{ma, mb, mc, ox, oy, oz, gt, cut, lm, tp, sb, hi}; configs++; progress("cfg=" + cfg_text(c) + "\n"); std::string e = run_config(c, &st);
        if (!e.empty()) R.violation(clause_of(e) + "|gt=" + std::to_string(gt), cfg_json(c) + ": " + e, "cfg=" + cfg_text(c) + "\n");
        if (configs % 3000 == 1) R.sample(cfg_json(c)); } }
done:
    if (R.args.mine(0) || R.args.nshards == 1) { progress("mode=large\n"); std::string e = run_large(&st); configs++; R["large_tissue_runs"] = 1; if (e.rfind("INTERNAL", 0) == 0) { R.internal_error = e; } else if (!e.empty()) R.violation(clause_of(e) + "|large-tissue", e, "mode=large\n"); }
    R["evaluations"] = configs; R["states"] = configs; R["transitions"] = st.candidates + st.narrow_calls; R["distinct_nontrivial"] = st.configs_with_pair_within; R["traces_validated_against_impl"] = configs;
    R["pairs_within_cutoff_checked"] = st.pairs_within; R["candidates_reported_by_the_model"] = st.candidates; R["reference_narrow_phase_calls"] = st.narrow_calls; R["configurations_with_nonzero_contact_force"] = st.nonzero_force_cases;
    R.tables["build"]["contact_model_index"] = CONTACT_MODEL_INDEX; R["configurations_with_free_face_slots"] = g_free_slot_configs; if (configs && !g_free_slot_configs && R.args.nshards == 1) R.internal_error = "no configuration carried free face slots (vacuous)";
    if (configs && !st.pairs_within) R.internal_error = "no pair was ever within the cut-off (vacuous)";
    R.strings["rule"] = "distinct_nontrivial = configurations (distinct tuples by construction) with at least one node-triangle pair of different cells within the cut-off; a configuration = (two or three cells: meshes, size of the second, relative offset on a half-size lattice from overlapping to far, global dyadic translation incl. +-1024.25 and straddling the origin, cut-off pair, min edge length = voxel alignment, cell types, history: fresh cells / cells that went through a real edge collapse and carry free slots / the same with persistent ids ahead of list positions); the real contact_model::run is executed; every (node, triangle) pair of different cells whose independently computed distance is within the larger cut-off and which passes the model's own pre-filters must appear among the H4 candidate reports; node forces must equal those of applying the model's own narrow-phase routine to all pairs of a cloned tissue";
    R.assumptions = {"pairs within 1e-9 relative of the cut-off are not judged", "force comparison (b) is skipped for epithelial-epithelial pairs in the coupling models (couplings depend on processing order); (a) still applies", "equal contact strengths on all face types (strength differences are C07's business)", "node normals/curvatures and face normals are fresh, as after the forces phase"};
}
static int replay(const Replay& rp, Result& R) { setup(); if (rp.get("mode") == "large") { std::string a = run_large(nullptr), b = run_large(nullptr); if (a != b) { printf("replay diverged\n"); return 0; } printf("%s\n", a.c_str()); if (!a.empty()) { R.violation(clause_of(a), a, ""); return 1; } return 0; }
    Config c = cfg_parse(rp.get("cfg")); std::string e1 = run_config(c), e2 = run_config(c); if (e1 != e2) { printf("replay diverged\n"); return 0; } printf("%s\n%s\n", cfg_json(c).c_str(), e1.c_str()); if (!e1.empty()) { R.violation(clause_of(e1), e1, ""); return 1; } return 0; }
int main(int argc, char** argv) { return run_main(argc, argv, "C06", explore, replay); }
