// C11 — remeshing is physically neutral, selective and always terminates (engine E1, hook H5).
// Same exploration as C01 with the second oracle set: per operation (momentum, survivors unmoved, midpoint, labels,
// volume/area under splits), per pass (selectivity from the H5 reports, idempotence on in-band meshes, operation bound).
#define PROP_C11
#include "refine_explore.hpp"

static void explore(Result& R) {
    const bool th = R.args.thorough();
    auto sd = rx::seeds(th); long unit = 0;   // work units (seed x level) are dealt round-robin to the parallel shards
    for (size_t i = 0; i < sd.size(); i++) { int depth = (i < 2) ? (th ? 4 : 3) : (th ? 3 : 2);
        if (!R.args.mine(unit++)) continue;
        long s0 = R["states"]; rx::explore_l1(R, sd[i], depth); R.tables["L1_states_per_seed"][sd[i].name + "@depth" + std::to_string(depth)] = R["states"] - s0; if (!R.internal_error.empty()) return; }
    R["L1_states"] = R["states"]; R["L1_transitions"] = R["transitions"];
    for (size_t i = 0; i < sd.size(); i++) { int depth = th ? 4 : 3; if (i >= 2 && !th) depth = 2; if (th && sd[i].name == "icosahedron") depth = 3;   /* 12-vertex seed: depth 4 does not complete inside the deadline */
        if (!R.args.mine(unit++)) continue;
        long s0 = R["states"]; rx::explore_l2(R, sd[i], depth); R.tables["L2_states_per_seed"][sd[i].name + "@depth" + std::to_string(depth)] = R["states"] - s0; if (!R.internal_error.empty()) return; }
    R["L2_states"] = R["states"] - R["L1_states"]; R["L2_transitions"] = R["transitions"] - R["L1_transitions"];
    R["traces_validated_against_impl"] = R["transitions"]; R["evaluations"] = R["transitions"]; R["distinct_nontrivial"] = R["states"];
    R.strings["rule"] = "same state space as C01 (distinct canonical cell states reached by BFS over operation histories on the real code); every transition is compared with the pre-state snapshot: total momentum, bit-identical positions of surviving nodes, new node at the edge midpoint, face-type labels of split children, volume/area under splits; every refine_mesh pass: each split was of an edge longer than l_max and each merge of one shorter than l_min (lengths measured at operation entry through hook H5), a mesh inside the band with all triangle scores >= 0.2 comes back identical, the pass ends within 50*|E|+50 operations";
    R.assumptions = {"node momenta are position dependent, face labels = face index mod 3, dynamic model 0 build (momenta exist)", "tolerances: momentum 1e-12 relative to the sum of |momenta|, volume/area 1e-12 relative, positions exact",
                     "a pass that reports failure by exception ends the history (allowed by the statement)"};
}
static int replay(const Replay& rp, Result& R) { return rx::replay_any(rp, R); }
int main(int argc, char** argv) { return run_main(argc, argv, "C11", explore, replay); }
