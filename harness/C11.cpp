// C11 — remeshing is physically neutral, selective and always terminates (engine E1, hook H5).
// Same exploration as C01 with the second oracle set: per operation (momentum, survivors unmoved, midpoint, labels,
// volume/area under splits), per pass (selectivity from the H5 reports, idempotence on in-band meshes, operation bound).
#define PROP_C11
#include "refine_explore.hpp"


// L3 scale block: the length band and the triangle-quality rule are relative to the size of the mesh.  Every history of the L2 alphabet up to `depth` is replayed on the seed scaled by s with the band
// scaled by s, s a power of two (scaling by a power of two is exact in binary floating point: every length comparison and every quality ratio is the same number, so the pass must take the same decisions):
//  (a) the connectivity and the positions divided by s reached at scale s are those reached at scale 1, with the same numbers of splits, merges and swaps; all per-operation oracles run at every scale;
//  (b) independently of the code's own score: a mesh whose edges lie strictly inside the band and whose triangles all have q * area / perimeter^2 >= 0.25 (q = 36/sqrt 3, threshold of the rule 0.2)
//      is left completely unchanged by a pass with edge swapping enabled.
static std::string shape_key(const cell& c, double s) { std::string k; char b[120];
    for (const node& n : c.node_lst_) { if (!n.is_used_) { k += "-;"; continue; } snprintf(b, sizeof b, "%a,%a,%a;", n.pos_.dx() / s, n.pos_.dy() / s, n.pos_.dz() / s); k += b; }
    for (const face& f : c.face_lst_) { if (!f.is_used_) { k += "-;"; continue; } snprintf(b, sizeof b, "%u,%u,%u,%u;", f.n1_id_, f.n2_id_, f.n3_id_, (unsigned)f.type_id_); k += b; } return k; }
static bool independently_conforming(const cell& c, double lmin, double lmax) {
    for (const face& f : c.face_lst_) { if (!f.is_used_) continue; const vec3 &a = c.node_lst_[f.n1_id_].pos_, &b = c.node_lst_[f.n2_id_].pos_, &d = c.node_lst_[f.n3_id_].pos_;
        const double l1 = (b - a).norm(), l2 = (d - b).norm(), l3 = (a - d).norm(); for (double l : {l1, l2, l3}) if (!(l > 1.001 * lmin && l < 0.999 * lmax)) return false;
        const double area = 0.5 * (b - a).cross(d - a).norm(), per = l1 + l2 + l3; if (!(36. / std::sqrt(3.) * area / (per * per) >= 0.25)) return false; }
    return true; }
static void explore_scale(Result& R, const rx::Seed& seed, int depth, const std::string& only = "") {
    using namespace rx; std::vector<Op> alphabet; for (unsigned d = 10; d <= 19; d++) alphabet.push_back({L2_DEFORM, d, 0});
    alphabet.push_back({L2_REFINE_SWAP, 0, 0}); alphabet.push_back({L2_REFINE_NOSWAP, 0, 0}); alphabet.push_back({L2_REBASE, 0, 0}); alphabet.push_back({L2_REFRESH, 0, 0});
    const double SC[] = {1.0, 0x1p-10, 0x1p-30, 0x1p-40, 0x1p+20}; const int NSC = 5;
    std::vector<std::vector<Op>> hs = {{}}; for (int d = 0, from = 0; d < depth; d++) { const int to = (int)hs.size(); for (int i = from; i < to; i++) { bool ends_with_pass = !hs[i].empty() && (hs[i].back().kind == L2_REFINE_SWAP || hs[i].back().kind == L2_REFINE_NOSWAP); (void)ends_with_pass; for (const Op& op : alphabet) { auto h = hs[i]; h.push_back(op); hs.push_back(h); } } from = to; }
    for (const auto& h : hs) { if (R.out_of_time(0.9)) { R.cap("deadline reached in the scale block on seed " + seed.name); break; }
        if (h.empty() || (h.back().kind != L2_REFINE_SWAP && h.back().kind != L2_REFINE_NOSWAP)) continue;   // judged where a pass ends the history
        if (!only.empty() && hist_text(h) != only) continue;
        std::string ref_key; long ref_ops[3] = {0, 0, 0}; bool ref_dead = false;
        for (int si = 0; si < NSC; si++) { const double s = SC[si]; sc::Mesh m = seed.mesh; for (auto& v : m.pos) v *= s; L_MIN = 0.5 * s; L_MAX = 1.5 * s;
            // the history up to the last pass, then the judged pass
            std::vector<Op> pre(h.begin(), h.end() - 1); BuiltL2 b = build_l2(m, pre); R["transitions"] += (long)h.size(); R["scale_block_passes"]++;
            std::string err = b.err; bool dead = b.dead; bool conforming = false; std::string before;
            if (err.empty() && !dead) { conforming = !b.stale && h.back().kind == L2_REFINE_SWAP && independently_conforming(*b.c, L_MIN, L_MAX); before = shape_key(*b.c, s);
                L2Apply r = apply_l2(b.c, h.back(), b.stale); if (r.err.find("degenerate-flat") != std::string::npos) dead = true; else if (!r.err.empty()) err = r.err; else if (r.threw) dead = true; }
            std::string key = (err.empty() && !dead) ? shape_key(*b.c, s) : ""; long ops[3] = {g_pass.splits, g_pass.merges, g_pass.swaps};
            char buf[400]; std::string hist = hist_text(h);
            if (err.empty() && !dead && conforming) { R["scale_block_conforming_meshes"]++; if (key != before) { snprintf(buf, sizeof buf, "pass-changed-a-mesh-already-inside-the-band: at scale %a a mesh with every edge strictly inside the band and every triangle of quality >= 0.25 (computed from the positions) underwent %ld splits %ld merges %ld swaps", s, ops[0], ops[1], ops[2]); err = buf; } }
            if (err.empty() && si > 0 && (dead != ref_dead || (!dead && (key != ref_key || ops[0] != ref_ops[0] || ops[1] != ref_ops[1] || ops[2] != ref_ops[2])))) { snprintf(buf, sizeof buf, "pass-depends-on-the-absolute-scale: the same mesh and band scaled by %a: %ld splits %ld merges %ld swaps%s, at scale 1: %ld splits %ld merges %ld swaps%s%s", s, ops[0], ops[1], ops[2], dead ? " (ended by exception)" : "", ref_ops[0], ref_ops[1], ref_ops[2], ref_dead ? " (ended by exception)" : "", (!dead && !ref_dead && key != ref_key) ? "; resulting surfaces differ" : ""); err = buf; }
            if (b.c) sc::release(b.c);
            if (!err.empty() && err.rfind("INTERNAL", 0) != 0) { std::string clause = err.substr(0, err.find(':')); R.violation(clause + "|scale|" + seed.name, "seed " + seed.name + " history " + hist + ": " + err, "level=L3\nseed=" + seed.name + "\nhistory=" + hist + "\ndepth=" + std::to_string(depth) + "\n"); break; }
            if (si == 0) { ref_key = key; ref_dead = dead; for (int k = 0; k < 3; k++) ref_ops[k] = ops[k]; R["states"]++; } }
        L_MIN = 0.5; L_MAX = 1.5; }
}

static std::vector<rx::Seed> scale_seeds(bool th);
static std::vector<rx::Seed> scale_seeds_fwd(bool th) { return scale_seeds(th); }
static void explore(Result& R) {
    const bool th = R.args.thorough();
    auto sd = rx::seeds(th); long unit = 0;   // work units (seed x level) are dealt round-robin to the parallel shards
    for (size_t i = 0; i < sd.size(); i++) { int depth = (i < 2) ? (th ? 4 : 3) : (th ? 3 : 2);
        if (!R.args.mine(unit++)) continue;
        long s0 = R["states"]; rx::explore_l1(R, sd[i], depth); R.tables["L1_states_per_seed"][sd[i].name + "@depth" + std::to_string(depth)] = R["states"] - s0; if (!R.internal_error.empty()) return; }
    R["L1_states"] = R["states"]; R["L1_transitions"] = R["transitions"];
    for (size_t i = 0; i < sd.size(); i++) { int depth = th ? 4 : 3; if (i >= 2 && !th) depth = 2; if (th && sd[i].name == "icosahedron") depth = 3;   /* 12-vertex seed: depth 4 does not complete inside the deadline */
        if (!R.args.mine(unit++)) continue;
        long s0 = R["states"]; rx::explore_l2(R, sd[i], depth); R.tables["L2_states_per_seed"][sd[i].name + "@depth" + std::to_string(depth)] = R["states"] - s0; if (!R.internal_error.empty()) return; }
    R["L2_states"] = R["states"] - R["L1_states"]; R["L2_transitions"] = R["transitions"] - R["L1_transitions"];
    { auto sd3 = scale_seeds_fwd(th);
      for (size_t i = 0; i < sd3.size(); i++) { if (!R.args.mine(unit++)) continue; explore_scale(R, sd3[i], (th && sd3[i].mesh.nv() <= 8) ? 3 : 2); if (!R.internal_error.empty()) return; } }
    R["traces_validated_against_impl"] = R["transitions"]; R["evaluations"] = R["transitions"]; R["distinct_nontrivial"] = R["states"];
    R.strings["rule"] = "same state space as C01 (distinct canonical cell states reached by BFS over operation histories on the real code); every transition is compared with the pre-state snapshot: total momentum, bit-identical positions of surviving nodes, new node at the edge midpoint, face-type labels of split children, volume/area under splits; every refine_mesh pass: each split was of an edge longer than l_max and each merge of one shorter than l_min (lengths measured at operation entry through hook H5), a mesh inside the band with all triangle scores >= 0.2 comes back identical, the pass ends within 50*|E|+50 operations";
    R.assumptions = {"node momenta are position dependent, face labels = face index mod 3, dynamic model 0 build (momenta exist)", "tolerances: momentum 1e-12 relative to the sum of |momenta|, volume/area 1e-12 relative, positions exact",
                     "a pass that reports failure by exception ends the history (allowed by the statement)"};
}
static std::vector<rx::Seed> scale_seeds(bool th) { auto sd3 = rx::seeds(th); { sc::Mesh m = sc::icosphere(1); sd3.push_back({rx::normalised(m), "icosphere1"}); } { sc::Mesh m = sc::icosphere(1); for (size_t i = 0; i < m.nv(); i++) { m.pos[3*i] *= 1.15; m.pos[3*i+2] *= 0.9; } sd3.push_back({rx::normalised(m), "icosphere1_squeezed"}); } return sd3; }
static int replay(const Replay& rp, Result& R) {
    if (rp.get("level") == "L3") { for (auto& sd : scale_seeds(true)) if (sd.name == rp.get("seed")) { explore_scale(R, sd, atoi(rp.get("depth").c_str()), rp.get("history")); printf("C11 replay: scale block, seed %s, history %s: %s\n", sd.name.c_str(), rp.get("history").c_str(), R.violations.empty() ? "no violation" : R.violations[0].what.c_str()); return R.violations.empty() ? 0 : 1; } printf("unknown seed\n"); return 0; }
    return rx::replay_any(rp, R); }
int main(int argc, char** argv) { return run_main(argc, argv, "C11", explore, replay); }
