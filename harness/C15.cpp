// C15 — results independent of thread count / schedule; parallel errors become exceptions (engine E4: vomp, hooks H2 + H3).
// The real parallel code runs on vomp's team of real threads of which one runs at a time; ALL schedules up to a preemption bound are
// enumerated (stateless DFS with state-hash pruning) and every complete execution is compared with the single-threaded reference.
// Builds: plain (functional oracle), asan (no invalid access under any schedule), tsan (no data race report under any schedule).
#include <sys/wait.h>
#include <unistd.h>
#include "solver_world.hpp"
#include "vomp/selftest.hpp"
#include "contact_common.hpp"
#include "cell_divider.hpp"
#include "mesh_writer.hpp"
#include "vomp/explorer.hpp"
#include <filesystem>
using namespace vf;

static std::string g_tsan_log;   // TSAN_OPTIONS=log_path=... : reports are collected from the log after each sub-check
static long count_tsan_reports(std::map<std::string, long>& by_site) { long n = 0; if (g_tsan_log.empty()) return 0; namespace fs = std::filesystem; std::error_code ec;
    for (auto& de : fs::directory_iterator(fs::path(g_tsan_log).parent_path(), ec)) { std::string fn = de.path().filename().string(); if (fn.rfind(fs::path(g_tsan_log).filename().string(), 0) != 0) continue; std::ifstream f(de.path()); std::string l; bool in = false; int frames = 0; std::string key;
        while (std::getline(f, l)) { if (l.find("WARNING: ThreadSanitizer: data race") != std::string::npos) { in = true; frames = 0; key.clear(); n++; continue; }
            if (in && l.find("    #") != std::string::npos && (l.find("/src/") != std::string::npos || l.find("/include/") != std::string::npos) && l.find("/usr/include") == std::string::npos && frames < 2) { size_t a = l.find(" in ") + 4; std::string fn2 = l.substr(a, l.find_first_of(" (", a) - a); size_t sl = l.rfind('/'); std::string loc = l.substr(sl + 1, l.find(' ', sl) - sl - 1); key += (key.empty() ? "" : " <-> ") + fn2 + "@" + loc; frames++; }
            if (in && l.find("SUMMARY") != std::string::npos) { by_site[key.substr(0, 160)]++; in = false; } } }
    return n; }

// ------------------------------------------------------------------------------------------------ (c) parallel_exception_handler
struct my_error : std::exception { std::string m; my_error(const std::string& s) : m(s) {} const char* what() const noexcept override { return m.c_str(); } };
static int g_ran[8];
static std::string scenario_peh(int n, int fail_mask) {
    for (int& x : g_ran) x = 0; std::vector<int> items(n); std::iota(items.begin(), items.end(), 0);
    std::function<void(int)> f = [fail_mask](int i) { g_ran[i]++; if (fail_mask >> i & 1) throw my_error("item " + std::to_string(i) + " failed"); };
    std::string out;
    try { parallel_exception_handler(items, f); out = "returned"; } catch (my_error& e) { out = std::string("my_error:") + e.what(); } catch (std::exception& e) { out = std::string("other:") + e.what(); } catch (...) { out = "non-standard exception"; }
    out += "|ran="; for (int i = 0; i < n; i++) out += char('0' + std::min(9, g_ran[i])); return out;
}
static std::string judge_peh(const std::string& outcome, int n, int fail_mask) {
    std::string ran = outcome.substr(outcome.find("|ran=") + 5), head = outcome.substr(0, outcome.find("|ran="));
    for (int i = 0; i < n; i++) if (ran[i] != '1') return "item-did-not-run-exactly-once-before-the-rethrow: item " + std::to_string(i) + " ran " + ran.substr(i, 1) + " times";
    if (!fail_mask) return head == "returned" ? "" : "exception-without-a-failing-item: " + head;
    if (head.rfind("my_error:item ", 0) != 0) return "caller-did-not-receive-the-thrown-exception: got '" + head + "'";
    int which = atoi(head.c_str() + 14); if (!(fail_mask >> which & 1)) return "caller-received-an-exception-nobody-threw: " + head; return "";
}

// ------------------------------------------------------------------------------------------------ (b) cell_divider::run
static std::vector<sc::Mesh> g_div_meshes; static cell_type_param_ptr g_div_type;
static std::vector<cell_ptr>* g_cur_list = nullptr;
static unsigned long hash_list() { unsigned long h = 1469598103934665603ul; if (!g_cur_list) return h; h = (h ^ g_cur_list->size()) * 1099511628211ul; h = (h ^ g_cur_list->capacity()) * 1099511628211ul; for (auto& c : *g_cur_list) { h = (h ^ (unsigned long)c->get_id()) * 1099511628211ul; h = (h ^ c->node_lst_.size()) * 1099511628211ul; } return h; }
// canonical description of a population: per cell (sorted) the triangle soup hash + id; ids separately
static std::string describe(const std::vector<cell_ptr>& L) { std::vector<std::string> cells; std::set<unsigned> ids; bool dup = false, badidx = false;
    for (size_t i = 0; i < L.size(); i++) { const cell& c = *L[i]; if (!ids.insert(c.get_id()).second) dup = true; if (c.get_local_id() != i) badidx = true; std::vector<std::array<double, 9>> soup; for (const face& f : c.face_lst_) if (f.is_used_) { const vec3 &a = c.node_lst_[f.n1_id_].pos_, &b = c.node_lst_[f.n2_id_].pos_, &d = c.node_lst_[f.n3_id_].pos_; std::array<std::array<double, 3>, 3> v = {{{a.dx(), a.dy(), a.dz()}, {b.dx(), b.dy(), b.dz()}, {d.dx(), d.dy(), d.dz()}}}; int m = 0; for (int k = 1; k < 3; k++) if (v[k] < v[m]) m = k; std::array<double, 9> t; for (int k = 0; k < 3; k++) for (int j = 0; j < 3; j++) t[3*k+j] = v[(m+k)%3][j]; soup.push_back(t); }
        std::sort(soup.begin(), soup.end()); std::string s; for (auto& t : soup) s.append((const char*)t.data(), sizeof(double) * 9); char b[64]; snprintf(b, sizeof b, "%016lx/%zu", (unsigned long)sc::fnv(s), soup.size()); cells.push_back(b); }
    std::sort(cells.begin(), cells.end()); std::string o = "n=" + std::to_string(L.size()) + (dup ? " DUPLICATE-ID" : "") + (badidx ? " BAD-INDEX" : "") + " cells:"; for (auto& c : cells) o += " " + c; return o; }
static std::string scenario_divide(int ncells, int ready_mask) {
    simucell3d_verif::g_base_seed = 777; simucell3d_verif::reset_rng_counters(); srand(1);
    std::vector<cell_ptr> L; for (int i = 0; i < ncells; i++) { cell_ptr c = sc::make_cell(g_div_meshes[i], 10 + i, g_div_type, true); c->set_local_id(i); c->division_volume_ = (ready_mask >> i & 1) ? 0.5 * c->get_volume() : 1e300; L.push_back(c); }
    unsigned max_id = 10 + ncells; double lo = 1e300, hi = 0; for (const edge& e : L[0]->get_edge_set()) { double d = (L[0]->node_lst_[e.n1()].pos_ - L[0]->node_lst_[e.n2()].pos_).norm(); lo = std::min(lo, d); hi = std::max(hi, d); }
    const double l_min = std::sqrt(hi / 3 * 1.02 * lo * 0.98); local_mesh_refiner lmr(l_min, 3 * l_min, true);
    g_cur_list = &L; cell_divider::run(L, l_min, lmr, max_id, false); g_cur_list = nullptr;
    std::string d = describe(L) + " max_id=" + std::to_string(max_id); for (auto& c : L) c->clear_data(); return d;
}


// (b') the same division phase with one cell in the list whose division cannot succeed (kind selects the shape; `where` its place in the list)
static sc::Mesh awkward_cell(int kind) { using namespace sc;
    if (kind == 0) { Mesh m = icosphere(2); for (size_t i = 0; i < m.nv(); i++) { double x = m.pos[3*i]; double r = 0.45 + 0.55 * x * x; m.pos[3*i] *= 1.6; m.pos[3*i+1] *= r; m.pos[3*i+2] *= r; } return scaled(m, 2, 2, 2); }
    if (kind == 1) { Mesh m = icosphere(2); for (size_t i = 0; i < m.nv(); i++) if (m.pos[3*i+2] > 0.6) m.pos[3*i+2] = 1.2 - m.pos[3*i+2]; return scaled(m, 2, 2, 2); }
    if (kind == 2) return scaled(icosphere(1), 1, 1.2, 1);
    if (kind == 3) return icosphere(2);                 // edges half as long as the band allows
    if (kind == 4) return scaled(icosphere(1), 3, 3, 3); // edges three times as long
    if (kind == 5) { Mesh m = icosphere(2); for (size_t i = 0; i < m.nv(); i++) { double x = m.pos[3*i]; if (std::fabs(x) < 0.3) { m.pos[3*i+1] *= 0.15; m.pos[3*i+2] *= 0.15; } } return scaled(m, 2, 2, 2); }   // pinched to a thin neck where the division plane passes
    return icosphere(1); }
static std::string scenario_divide_awkward(int kind, int where) {
    simucell3d_verif::g_base_seed = 777; simucell3d_verif::reset_rng_counters(); srand(1);
    std::vector<cell_ptr> L; for (int i = 0; i < 3; i++) { sc::Mesh m = (i == where) ? sc::translated(awkward_cell(kind), 8.0 * i, 0, 0) : sc::translated(sc::icosphere(1), 8.0 * i, 0, 0); cell_ptr c = sc::make_cell(m, 10 + i, g_div_type, true); c->set_local_id(i); c->division_volume_ = 0.5 * c->get_volume(); L.push_back(c); }
    unsigned max_id = 13; double lo = 1e300, hi = 0; const cell& c0 = *L[where == 0 ? 1 : 0]; for (const edge& e : c0.get_edge_set()) { double d = (c0.node_lst_[e.n1()].pos_ - c0.node_lst_[e.n2()].pos_).norm(); lo = std::min(lo, d); hi = std::max(hi, d); }
    const double l_min = std::sqrt(hi / 3 * 1.02 * lo * 0.98); local_mesh_refiner lmr(l_min, 3 * l_min, true);
    g_cur_list = &L; cell_divider::run(L, l_min, lmr, max_id, false); g_cur_list = nullptr;
    std::string d = describe(L) + " max_id=" + std::to_string(max_id); for (auto& c : L) c->clear_data(); return d;
}

// ------------------------------------------------------------------------------------------------ (a) run_iteration on non-interacting cells
static solver* g_cur_solver = nullptr;
static unsigned long hash_world() { if (!g_cur_solver) return 0; return sc::fnv(sw::canon_world(*g_cur_solver)); }
static std::string scenario_iterations(int iters) {
    simucell3d_verif::g_base_seed = 555; simucell3d_verif::reset_rng_counters(); srand(1);
    std::vector<sw::CellSpec> cs; sc::Mesh ico = sc::icosphere(1); for (int i = 0; i < 3; i++) { auto ty = sc::make_cell_type(0, 3); ty->bulk_modulus_ = 5; ty->avg_growth_rate_ = 20 + 5 * i; for (auto& f : ty->face_types_) f.surface_tension_ = 0.3; cs.push_back({sc::translated(sc::scaled(ico, 1 + 0.2 * i, 1, 1), 6.0 * i, 0, 0), ty}); }
    global_simulation_parameters p = sc::make_sim_params(sw::scratch_root() + "/c15", 0.2); p.time_step_ = 2e-3; p.sampling_period_ = 1e9; p.simulation_duration_ = 1e9;
    std::string key;
    { sw::World W(cs, p); g_cur_solver = W.s.get(); for (int i = 0; i < iters; i++) W.s->run_iteration(); g_cur_solver = nullptr; key = sw::canon_world(*W.s); }
    char b[40]; snprintf(b, sizeof b, "%016lx", (unsigned long)sc::fnv(key)); return b;
}

// ------------------------------------------------------------------------------------------------ (e) mesh output: the writer compacts the cells in a parallel loop before it prints them
static std::string scenario_write(int ncells) {
    std::vector<cell_ptr> L; local_mesh_refiner lmr(1e-3, 1e3, true);
    for (int i = 0; i < ncells; i++) { cell_ptr c = sc::make_cell(sc::translated(sc::icosphere(1), 3.0 * i, 0.25 * i, 0), (unsigned)i, sc::make_cell_type(i % 2 ? 2 : 0, 3), true); c->set_local_id(i);
        for (int k = 0; k <= i % 3; k++) for (const edge& e0 : c->get_edge_set()) { edge e = e0; bool can = false; try { can = lmr.can_be_merged(e, c); } catch (...) {} if (!can) continue; edge_set es = c->get_edge_set(); try { lmr.merge_edge(e, c, es); } catch (...) {} break; }   // free slots: the compaction has work to do
        c->update_all_face_normals_and_areas(); c->area_ = c->compute_area(); c->volume_ = c->compute_volume(); L.push_back(c); }
    std::string dir = sw::scratch_root() + "/c15w"; std::filesystem::create_directories(dir); std::string cp = dir + "/cells.vtk", fp = dir + "/faces.vtk", out;
    try { mesh_writer::write(cp, fp, L); } catch (std::exception& e) { out = std::string("threw:") + e.what(); }
    for (const std::string& path : {cp, fp}) { std::ifstream f(path); std::stringstream ss; ss << f.rdbuf(); char b[40]; snprintf(b, sizeof b, " %016lx", (unsigned long)sc::fnv(ss.str())); out += b; }
    for (auto& c : L) { char b[60]; snprintf(b, sizeof b, " %016lx/%zu/%zu", (unsigned long)sc::fnv(sc::canon_cell(*c)), c->node_lst_.size(), c->face_lst_.size()); out += b; c->clear_data(); }
    return out;
}


// (e') the same output phase with one cell whose compaction fails (an edge shared by three faces: what an unstable run leaves behind; plus a point no face uses, so that the compaction
// has to rebuild its edge set), at every place of the list: the caller receives the integrity exception, and the healthy cells have all been compacted when it does
static std::string scenario_write_with_a_broken_cell(int where) {
    std::vector<cell_ptr> L; local_mesh_refiner lmr(1e-3, 1e3, true);
    for (int i = 0; i < 3; i++) { cell_ptr c;
        if (i == where) { sc::Mesh m = sc::translated(sc::cube12(), 3.0 * i, 0, 0); const unsigned e0 = m.tri[0], e1 = m.tri[1]; std::vector<double> pos = m.pos; std::vector<unsigned> tri = m.tri;
            for (int k = 0; k < 3; k++) pos.push_back(0.5 * (m.pos[3*e0+k] + m.pos[3*e1+k]) + (k == 1 ? -1.0 : -0.7));   /* apex of a fin on the first edge of the first triangle */ const unsigned apex = (unsigned)(pos.size() / 3 - 1);
            tri.push_back(e0); tri.push_back(apex); tri.push_back(e1); pos.push_back(3.0 * i + 5); pos.push_back(5); pos.push_back(5);   /* a point no face uses */
            c = std::make_shared<epithelial_cell>(pos, tri, (unsigned)i, sc::make_cell_type(0, 3)); c->initialize_cell_properties(false); }
        else { c = sc::make_cell(sc::translated(sc::icosphere(1), 3.0 * i, 0.25 * i, 0), (unsigned)i, sc::make_cell_type(i % 2 ? 2 : 0, 3), true);
            for (const edge& e0 : c->get_edge_set()) { edge e = e0; bool can = false; try { can = lmr.can_be_merged(e, c); } catch (...) {} if (!can) continue; edge_set es = c->get_edge_set(); try { lmr.merge_edge(e, c, es); } catch (...) {} break; }
            c->update_all_face_normals_and_areas(); c->area_ = c->compute_area(); c->volume_ = c->compute_volume(); }
        c->set_local_id(i); L.push_back(c); }
    std::string dir = sw::scratch_root() + "/c15wb"; std::filesystem::create_directories(dir); std::string out = "returned";
    try { mesh_writer::write(dir + "/cells.vtk", dir + "/faces.vtk", L); } catch (mesh_integrity_exception& e) { out = "mesh_integrity_exception"; } catch (std::exception& e) { out = std::string("other exception: ") + e.what(); }
    for (int i = 0; i < 3; i++) if (i != where) out += L[i]->get_nb_of_nodes() == L[i]->node_lst_.size() ? " compacted" : " NOT-COMPACTED";
    for (auto& c : L) c->clear_data(); return out;
}


// (e'') an error in ONE of the two output sections only (the file of that section cannot be opened; the other can): the caller receives the writer's exception whichever section fails
static std::string scenario_write_one_file_unwritable(int which) {
    std::vector<cell_ptr> L; for (int i = 0; i < 2; i++) { cell_ptr c = sc::make_cell(sc::translated(sc::icosphere(1), 3.0 * i, 0, 0), (unsigned)i, sc::make_cell_type(0, 3), true); c->set_local_id(i); c->update_all_face_normals_and_areas(); c->area_ = c->compute_area(); c->volume_ = c->compute_volume(); L.push_back(c); }
    std::string dir = sw::scratch_root() + "/c15wu"; std::filesystem::create_directories(dir); const std::string good = dir + "/ok.vtk", bad = dir + "/no_such_directory/x.vtk"; std::string out = "returned";
    try { mesh_writer::write(which == 0 ? bad : good, which == 1 ? bad : good, L); } catch (mesh_writer_exception& e) { out = "mesh_writer_exception"; } catch (std::exception& e) { out = std::string("other exception: ") + e.what(); }
    for (auto& c : L) c->clear_data(); return out;
}

// ------------------------------------------------------------------------------------------------ (f) the contact phase of the build's contact model on interpenetrating cells
// Interacting cells are outside the bit-identity clause (the order of the atomic additions is free), so the outcome is judged by what every order must respect: the contact forces
// add up to zero and agree with the single-threaded run to rounding.  The same executions run under ThreadSanitizer: an unsynchronised access to a node shared by two cells is a race
// in every schedule, whether or not this schedule loses the update.
static std::vector<vec3> g_contact_ref; static long g_unwatched = 0;
static std::string scenario_contact(int ncells) {
    std::vector<cell_ptr> L; auto mk = [&](double x, double y, double z, short type, unsigned id) { auto t = sc::make_cell_type(type, 3); t->surface_coupling_max_curvature_ = 1e30; for (auto& f : t->face_types_) { f.adherence_strength_ = 2.0; f.repulsion_strength_ = 3.0; } L.push_back(sc::make_cell(sc::translated(sc::icosphere(1), x, y, z), id, t, true)); };
    const bool springs = CONTACT_MODEL_INDEX == 0;   // the spring model repels epithelial cells too; the coupling models couple them, so there the neighbours are lumen cells
    mk(0, 0, 0, 0, 0); mk(1.85, 0.05, -0.02, springs ? 0 : 2, 1); if (ncells > 2) mk(0.92, 1.6, 0.03, springs ? 0 : 2, 2); if (ncells > 3) mk(0.9, 0.55, 1.6, 0, 3);     // mutually interpenetrating by less than the repulsion cut-off, so that nodes are repelled AND are vertices of repelled faces
    cx::prepare(L); global_simulation_parameters sp = sc::make_sim_params("unused", 0.3); sp.contact_cutoff_adhesion_ = 0.25; sp.contact_cutoff_repulsion_ = 0.25; cx::Model model(sp); cx::zero_forces(L);
    // the lockset detector judges the accumulators the contact phase adds to from several threads: forces (all models), momenta and positions (the coupling models move coupled nodes)
    if (vomp::lset_watch) { vomp::lset_watch(nullptr, 0); for (auto& c : L) for (node& n : c->node_lst_) { vomp::lset_watch(&n.force_, sizeof(vec3)); vomp::lset_watch(&n.pos_, sizeof(vec3));
#if DYNAMIC_MODEL_INDEX == 0
        vomp::lset_watch(&n.momentum_, sizeof(vec3));
#endif
    } }
    model.run(L);
    if (vomp::lset_watch) { vomp::lset_watch(nullptr, 0); g_unwatched += vomp::lset_unwatched_conflicts(); }
    std::vector<vec3> F; vec3 net(0, 0, 0); double sumabs = 0, scale = 0; for (auto& c : L) for (node& n : c->node_lst_) { vec3 f = n.is_used_ ? n.force_ : vec3(0, 0, 0); F.push_back(f); net = net + f; sumabs += f.norm(); scale = std::max(scale, f.norm()); }
    for (auto& c : L) c->clear_data();
    if (!(sumabs > 0)) return "INTERNAL no contact force was produced (vacuous)";
    if (vomp::mode() == vomp::MODE_SERIAL) { g_contact_ref = F; return "ok"; }
    char b[200]; if (net.norm() > 1e-9 * sumabs) { snprintf(b, sizeof b, "contact-forces-do-not-add-up-to-zero: |sum F| = %.3g of sum|F| = %.3g", net.norm(), sumabs); return b; }
    if (F.size() == g_contact_ref.size()) for (size_t i = 0; i < F.size(); i++) if ((F[i] - g_contact_ref[i]).norm() > 1e-9 * (scale + 1e-300)) { snprintf(b, sizeof b, "contact-force-differs-from-the-single-threaded-run-beyond-rounding: node slot %zu", i); return b; }
    return "ok";
}

// ------------------------------------------------------------------------------------------------ (g) a division inside a real solver iteration (ids come from the solver's own counter)
static std::string scenario_solver_division(int ready_mask) {
    simucell3d_verif::g_base_seed = 999; simucell3d_verif::reset_rng_counters(); srand(1);
    std::vector<sw::CellSpec> cs; for (int i = 0; i < 3; i++) { auto ty = sc::make_cell_type(0, 3); ty->bulk_modulus_ = 5; for (auto& f : ty->face_types_) f.surface_tension_ = 0.3; ty->avg_division_vol_ = (ready_mask >> i & 1) ? 1.0 : std::numeric_limits<double>::infinity(); ty->std_division_vol_ = 0;
        cs.push_back({sc::translated(sc::scaled(sc::transformed(sc::icosphere(1), sc::matmul(sc::rot_x_51213(), sc::rot_z_345()), {0, 0, 0}), 1.3, 1.0, 0.8), 10.5 + 4.0 * i, -6.75, 0.75), ty}); }
    global_simulation_parameters p = sc::make_sim_params(sw::scratch_root() + "/c15g", 0.25); p.time_step_ = 1e-3; p.sampling_period_ = 1e9; p.simulation_duration_ = 1e9;
    std::string d; { sw::World W(cs, p); g_cur_solver = W.s.get(); W.s->run_iteration(); g_cur_solver = nullptr; d = describe(W.cells()); for (auto& c : W.cells()) d += " id" + std::to_string(c->get_id()); }
    if (getenv("C15_DEBUG")) fprintf(stderr, "G: %s\n", d.c_str());
    return d;
}


// ------------------------------------------------------------------------------------------------ (h) cell types that differ in which forces they switch on
// Non-interacting cells of two types: one with every bending modulus zero (the bending force returns early), one with non-zero moduli; both orders in the list.  Run with every execution in
// its own process: whatever the force code remembers process-wide from the first cell it happens to serve (a function-local static, a lazily built table) is then decided by the schedule.
static std::string scenario_mixed_types(int order, int iters) {
    simucell3d_verif::g_base_seed = 4242; simucell3d_verif::reset_rng_counters(); srand(1);
    std::vector<sw::CellSpec> cs; sc::Mesh ico = sc::icosphere(1);
    for (int i = 0; i < 2; i++) { const bool stiff = ((i + order) & 1) != 0; auto ty = sc::make_cell_type(0, 3); ty->bulk_modulus_ = 5; ty->avg_growth_rate_ = 10; ty->area_elasticity_modulus_ = stiff ? 0.0 : 0.2; ty->angle_regularization_factor_ = stiff ? 0.0 : 0.05;
        for (auto& f : ty->face_types_) { f.surface_tension_ = 0.3; f.bending_modulus_ = stiff ? 0.05 : 0.0; } cs.push_back({sc::translated(sc::scaled(ico, 1.25, 1, 0.85), 6.0 * i, 0.5, -0.25), ty}); }
    global_simulation_parameters p = sc::make_sim_params(sw::scratch_root() + "/c15h", 0.2); p.time_step_ = 2e-3; p.sampling_period_ = 1e9; p.simulation_duration_ = 1e9;
    std::string key; { sw::World W(cs, p); g_cur_solver = W.s.get(); for (int i = 0; i < iters; i++) W.s->run_iteration(); g_cur_solver = nullptr; key = sw::canon_world(*W.s); }
    char b[40]; snprintf(b, sizeof b, "%016lx", (unsigned long)sc::fnv(key)); return b;
}
// runs f in a forked child and returns its string ("CRASHED ..." if the child does not report)
static std::string isolated_call(const std::function<std::string()>& f) {
    int fd[2]; if (pipe(fd) != 0) return "INTERNAL pipe"; fflush(nullptr); pid_t pid = fork();
    if (pid == 0) { close(fd[0]); std::string o = f(); o += '\x01'; for (size_t off = 0; off < o.size();) { ssize_t w = write(fd[1], o.data() + off, o.size() - off); if (w <= 0) _exit(3); off += (size_t)w; } _exit(0); }
    close(fd[1]); std::string buf; char tmp[4096]; for (;;) { ssize_t r = read(fd[0], tmp, sizeof tmp); if (r > 0) buf.append(tmp, (size_t)r); else if (r == 0) break; else if (errno != EINTR) break; } close(fd[0]); int st = 0; while (waitpid(pid, &st, 0) < 0 && errno == EINTR) {}
    if (buf.empty() || buf.back() != '\x01' || !WIFEXITED(st) || WEXITSTATUS(st) != 0) return "CRASHED: the single-threaded run ended with " + (WIFSIGNALED(st) ? "signal " + std::to_string(WTERMSIG(st)) : std::string("a non-zero exit status")); buf.pop_back(); return buf; }

// ------------------------------------------------------------------------------------------------ (d) shared node: atomic force accumulation + locked coupling
static std::string scenario_shared_node(int team) {
    static node shared(0., 0., 0., 0u); shared.force_.reset();
#if CONTACT_MODEL_INDEX == 1
    shared.coupled_node_ = std::nullopt; shared.squared_distance_to_closest_node_ = 1e300;
#endif
    struct Ctx { node* n; }; Ctx ctx{&shared};
    // a parallel region written against the same runtime entry points the repository uses
    std::vector<int> items(4); std::iota(items.begin(), items.end(), 0);
    std::function<void(int)> f = [&](int i) { shared.add_force(vec3(1.0 + i, 0.5 * i, -1.0 * i));
#if CONTACT_MODEL_INDEX == 1
        shared.set_coupled_node_and_min_distance(std::make_pair((unsigned)i, (unsigned)(10 + i)), 1.0 + i);
#endif
    };
    parallel_exception_handler(items, f);
    char b[200]; snprintf(b, sizeof b, "force=(%.17g,%.17g,%.17g)", shared.force_.dx(), shared.force_.dy(), shared.force_.dz()); std::string o = b;
#if CONTACT_MODEL_INDEX == 1
    if (!shared.coupled_node_.has_value()) o += " uncoupled"; else { auto [c, n] = shared.coupled_node_.value(); if (n != 10 + c || shared.squared_distance_to_closest_node_ != 1.0 + c) o += " TORN-COUPLING"; else o += " coupled-consistently"; }
#endif
    (void)team; return o;
}

static void find_tsan_log(const std::string& variant) { g_tsan_log.clear(); if (variant.rfind("tsan", 0) != 0) return; if (getenv("TSAN_OPTIONS")) { std::string o = getenv("TSAN_OPTIONS"); size_t p = o.find("log_path="); if (p != std::string::npos) g_tsan_log = o.substr(p + 9, o.find_first_of(": ", p + 9) - p - 9); } }
static void collect_tsan(Result& R) { if (g_tsan_log.empty()) return; std::map<std::string, long> by; long n = count_tsan_reports(by); R["tsan_reports"] = n;
    for (auto& kv : by) { R.tables["tsan_report_sites"][kv.first] = kv.second; R.violation("data-race|" + kv.first, "ThreadSanitizer reports a data race under the explored schedules: " + kv.first + " (" + std::to_string(kv.second) + " reports)", "sub=tsan\nsite=" + kv.first + "\n"); } }
struct Sub { std::string name; int team, bound; std::function<std::string()> scenario; std::function<std::string(const std::string&)> judge; unsigned long (*hash)(); std::string reference; bool isolated = false;   /* every execution (and the single-threaded reference) in its own forked process: see Explorer::isolate */ };

static void explore(Result& R) {
    const std::string variant = R.args.variant; const bool functional = variant.rfind("plain", 0) == 0;
    const bool th = R.args.thorough() && functional;   // the deeper bounds and larger teams of the thorough tier in the plain builds; the sanitizer and lockset builds (3-20x slower per schedule) keep the quick-tier bounds there
    R.tables["build"]["deep_bounds"] += th ? 1 : 0;
    find_tsan_log(variant);
    sc::Mesh ico = sc::icosphere(1); for (int i = 0; i < 4; i++) g_div_meshes.push_back(sc::translated(ico, 4.0 * i, 0, 0)); g_div_type = sc::make_cell_type(0, 3);
    std::vector<Sub> subs;
    // (h) first: isolated sub-checks fork from a process that has not run the simulation code yet
    if (CONTACT_MODEL_INDEX == 1 && functional) for (int order : {0, 1}) { Sub h{"run_iteration x2, two cell types with and without bending rigidity, order " + std::to_string(order) + ", isolated processes, T=2", 2, th ? 2 : 1, [order] { return scenario_mixed_types(order, 2); }, nullptr, hash_world, "@serial"}; h.isolated = true; subs.push_back(h); }
    if (CONTACT_MODEL_INDEX == 1) {
    // (b') a cell whose division fails, at every place in the list; every execution in its own process, so that an error that ends the process ends one execution
    for (int kind : {2, 0, 5, 1}) for (int where = 0; where < 3; where++) { if (!th && kind != 2 && !(kind == 0 && where == 1)) continue; Sub d{"divide-with-a-cell-that-cannot-divide kind=" + std::to_string(kind) + " place=" + std::to_string(where) + ", isolated processes, T=2", 2, th ? 2 : 1, [kind, where] { return scenario_divide_awkward(kind, where); }, nullptr, hash_list, "@serial"}; d.isolated = functional; subs.push_back(d); }
    }
    if (CONTACT_MODEL_INDEX == 1) for (int where = 0; where < 3; where++) { Sub w{"mesh_writer::write with a cell whose compaction fails at place " + std::to_string(where) + ", isolated processes, T=2", 2, th ? 2 : 1, [where] { return scenario_write_with_a_broken_cell(where); }, [](const std::string& o) { return o == "mesh_integrity_exception compacted compacted" ? std::string() : ("exception-of-a-parallel-phase-does-not-reach-the-caller-as-thrown-after-all-threads-finished: " + o); }, nullptr, ""}; w.isolated = functional; subs.push_back(w); }
    if (CONTACT_MODEL_INDEX == 1) for (int which = 0; which < 2; which++) for (int T : {1, 2}) subs.push_back({std::string("mesh_writer::write, the ") + (which ? "face" : "cell") + "-data file cannot be opened, T=" + std::to_string(T), T, 1, [which] { return scenario_write_one_file_unwritable(which); }, [](const std::string& o) { return o == "mesh_writer_exception" ? std::string() : ("exception-of-a-parallel-phase-does-not-reach-the-caller-as-thrown-after-all-threads-finished: " + o); }, nullptr, ""});
    // (g) (early: cheap, and decisive for the identity clauses)
    if (CONTACT_MODEL_INDEX == 1) {
    for (int mask : {1, 2, 3}) { if (!th && mask == 3) continue; subs.push_back({"solver-iteration-with-division ready=" + std::to_string(mask) + " T=2", 2, th ? 1 : 0, [mask] { return scenario_solver_division(mask); }, nullptr, hash_world, "@serial"}); }
    }
    // (c)
    for (int n = 1; n <= (th ? 4 : 3); n++) for (int mask = 0; mask < (1 << n); mask++) { if (__builtin_popcount(mask) > 2) continue; for (int T = 1; T <= 3; T++) { if (!th && T == 3 && n < 3) continue;
        subs.push_back({"peh n=" + std::to_string(n) + " failing=" + std::to_string(mask) + " T=" + std::to_string(T), T, 2, [n, mask] { return scenario_peh(n, mask); }, [n, mask](const std::string& o) { return judge_peh(o, n, mask); }, nullptr, ""}); } }
    // (d)
    for (int T = 2; T <= 3; T++) subs.push_back({"shared-node T=" + std::to_string(T), T, 2, [T] { return scenario_shared_node(T); }, nullptr, nullptr, "@serial"});
    // (f)
    for (int nc : {2, 3}) for (int T : {2, 3}) { if (T > nc) continue; subs.push_back({"contact phase (model " + std::to_string(CONTACT_MODEL_INDEX) + "), " + std::to_string(nc) + " interpenetrating cells, T=" + std::to_string(T), T, th ? 3 : 2, [nc] { return scenario_contact(nc); }, [](const std::string& o) { return o == "ok" ? std::string() : o; }, nullptr, "@serial"}); }
    if (CONTACT_MODEL_INDEX != 1) { std::vector<Sub> only; for (auto& x : subs) if (x.name.rfind("contact phase", 0) == 0) only.push_back(x); subs = only; }   // the other contact-model builds run the contact sub-check only
    else {
    // (e)
    for (int T : {2, 3}) subs.push_back({"mesh_writer::write, three cells with free slots, T=" + std::to_string(T), T, th ? 2 : 1, [] { return scenario_write(3); }, nullptr, nullptr, "@serial"});
    // (b)
    for (int nc : {3, 4}) for (int mask : {3, 5, 6, 7}) for (int T : {2, 3}) { if (!th && (nc == 4 || (T == 3 && mask != 7))) continue; subs.push_back({"divide cells=" + std::to_string(nc) + " ready=" + std::to_string(mask) + " T=" + std::to_string(T), T, th ? 3 : 2, [nc, mask] { return scenario_divide(nc, mask); }, nullptr, hash_list, "@serial"}); }
    // (a)
    for (int T : {2, 3}) { if (!th && T == 3) continue; subs.push_back({"run_iteration x2, three non-interacting cells, T=" + std::to_string(T), T, th ? 2 : 1, [] { return scenario_iterations(2); }, nullptr, hash_world, "@serial"}); }
    if (th) subs.push_back({"run_iteration x2, three non-interacting cells, T=4", 4, 1, [] { return scenario_iterations(2); }, nullptr, hash_world, "@serial"});
    }

    // the runtime and the explorer first show that they find what they are there to find
    if (R.args.shard == 0 && R.args.variant.find("tsan") == std::string::npos) { /* the kernels race on purpose: not under the race detector */ vomp_selftest::Report st = vomp_selftest::run(); R["selftest_schedules"] = st.schedules; R.strings["explorer_selftest"] = st.detail; if (!st.error.empty()) { R.internal_error = st.error; return; } }
    long total_switch = 0, total_exec = 0, total_points = 0, total_pruned = 0; long unit = 0;
    for (Sub& s : subs) { if (!R.args.mine(unit++)) continue; if (R.out_of_time(0.9)) { R.cap("deadline before sub-check " + s.name); break; }
        progress("sub=" + s.name + "\n");
        if (s.reference == "@serial") { vomp::set_mode(vomp::MODE_SERIAL, 1); s.reference = s.isolated ? isolated_call(s.scenario) : s.scenario(); std::string again = s.isolated ? isolated_call(s.scenario) : s.scenario();
            if (s.reference.rfind("CRASHED", 0) == 0) { R.violation("process-ended-inside-a-parallel-phase|" + s.name.substr(0, s.name.find(' ')), s.name + ": " + s.reference, "sub=" + s.name + "\nteam=1\nschedule=\n"); continue; } if (again != s.reference) { R.internal_error = "sequential reference of '" + s.name + "' is not reproducible"; return; }
            if (s.reference.find("DUPLICATE-ID") != std::string::npos || s.reference.find("BAD-INDEX") != std::string::npos) { R.violation(std::string(s.reference.find("DUPLICATE-ID") != std::string::npos ? "two-cells-carry-the-same-id" : "position-index-differs-from-list-position") + "|" + s.name.substr(0, s.name.find(' ')), s.name + ", single-threaded run: " + s.reference.substr(0, 160), "sub=" + s.name + "\nteam=1\nschedule=\n"); continue; } }
        for (int b = 0; b <= s.bound; b++) {      // iterate the bound: 0, 1, 2, ...
            vomp::Explorer E; E.isolate = s.isolated; E.team = s.team; E.bound = b; E.scenario = s.scenario; E.deadline_s = std::max(5.0, (R.args.deadline * 0.9 - R.elapsed()) / 2); vomp::set_state_hash(s.hash);
            std::string first_err; std::vector<int> first_sched;
            E.judge = [&](const vomp::Execution& x) { std::string e; if (x.crashed) e = "process-ended-inside-a-parallel-phase: " + x.outcome; else if (x.deadlock) e = "deadlock: no enabled thread while threads are unfinished"; else if (x.diverged) e = "INTERNAL schedule diverged while replaying a prefix"; else if (x.overflow || x.horizon) e = "INTERNAL trace overflow / horizon";
                else if (!x.races.empty()) { std::string all = x.races; for (size_t p2 = 0; p2 < all.size();) { size_t q = all.find('\n', p2); if (q == std::string::npos) q = all.size(); if (q > p2) { std::string pair = all.substr(p2, std::min<size_t>(q - p2, 240)); R.tables["lockset_race_pairs"][pair]++;
                        R.violation("lockset-race|" + pair, s.name + ", schedule " + vomp::Explorer::schedule_text(x.choices()) + ": two threads of one team access the same bytes between two team-wide synchronisations, at least one writes, not both atomically, no lock in common: " + pair, "sub=" + s.name + "\nteam=" + std::to_string(s.team) + "\nschedule=" + vomp::Explorer::schedule_text(x.choices()) + "\n"); } p2 = q + 1; } }
                else if (x.outcome.find("DUPLICATE-ID") != std::string::npos) e = "two-cells-carry-the-same-id: " + x.outcome.substr(0, 120); else if (x.outcome.find("BAD-INDEX") != std::string::npos) e = "position-index-differs-from-list-position: " + x.outcome.substr(0, 120);
                else if (s.judge) e = s.judge(x.outcome); else if (functional && x.outcome != s.reference) e = "result-differs-from-the-single-threaded-run: '" + x.outcome.substr(0, 200) + "' vs '" + s.reference.substr(0, 200) + "'";
                if (!e.empty() && first_err.empty()) { first_err = e; first_sched = x.choices(); } };
            E.explore({});
            total_exec += E.executions; total_switch += E.with_switch; total_points += E.points; total_pruned += E.pruned; if (s.isolated) R["executions_in_isolated_processes"] += E.executions; R.tables["schedules_per_subcheck"][s.name + " bound=" + std::to_string(b)] = E.executions; R.tables["distinct_outcomes_per_subcheck"][s.name + " bound=" + std::to_string(b)] = (long)E.outcomes.size(); if (s.name.rfind("peh ", 0) == 0 && b == s.bound) { int pn = 0, pm = 0, pt = 0; sscanf(s.name.c_str(), "peh n=%d failing=%d T=%d", &pn, &pm, &pt); for (auto& o : E.outcomes) R.tables["peh_outcomes"][std::to_string(pn) + " " + std::to_string(pm) + " " + std::to_string(pt) + " => " + o.substr(0, o.find("|ran="))]++; }
            if (E.capped) R.cap("sub-check '" + s.name + "' bound " + std::to_string(b) + " stopped at " + std::to_string(E.executions) + " schedules");
            if (R.samples.size() < 6 && !E.sample_schedules.empty()) R.sample("{\"subcheck\":\"" + s.name + "\",\"bound\":" + std::to_string(b) + ",\"schedule\":\"" + vomp::Explorer::schedule_text(E.sample_schedules.back()) + "\",\"schedules_explored\":" + std::to_string(E.executions) + "}");
            if (!first_err.empty()) { if (first_err.rfind("INTERNAL", 0) == 0) { R.internal_error = first_err + " in " + s.name; return; }
                // replay twice before reporting
                vomp::Explorer P; P.isolate = s.isolated; P.team = s.team; P.scenario = s.scenario; vomp::set_state_hash(s.hash); vomp::Execution a = P.run(first_sched), bb = P.run(first_sched); if (a.outcome != bb.outcome) { R.internal_error = "schedule does not replay deterministically in " + s.name; return; }
                std::string kind = s.name.substr(0, s.name.find(' ')); R.violation(clause_of(first_err) + "|" + kind, s.name + ", preemption bound " + std::to_string(b) + ", schedule " + vomp::Explorer::schedule_text(first_sched) + ": " + first_err, "sub=" + s.name + "\nteam=" + std::to_string(s.team) + "\nschedule=" + vomp::Explorer::schedule_text(first_sched) + "\n"); break; }
            if (E.capped) break; }
    }
    vomp::set_mode(vomp::MODE_SERIAL, 1); sw::cleanup_scratch();
    // race reports of the TSan build (every explored schedule is also race-checked: hand-offs are invisible to the sanitizer)
    collect_tsan(R);
    if (vomp::lset_accesses) { R["lockset_detector_accesses_checked"] = vomp::lset_accesses(); R["lockset_detector_records_dropped"] = vomp::lset_dropped(); R["lockset_conflicts_on_bytes_outside_the_judged_accumulators(contact phase)"] = g_unwatched; }
    R["states"] = total_points; R["transitions"] = total_points; R["evaluations"] = total_exec; R["schedules"] = total_exec; R["distinct_nontrivial"] = total_switch; R["traces_validated_against_impl"] = total_exec; R["schedules_pruned_by_state_hash"] = total_pruned;
    R.strings["rule"] = "distinct_nontrivial = schedules (distinct choice sequences by construction) in which at least one decision departs from the default of letting the running thread continue; a schedule = a sequence of choices at the scheduling points of vomp (region start, critical/lock entry and exit, hooked loop bodies, thread exit); for every sub-check all schedules with 0, then 1, then 2 (...) preemptions are executed on the real code with a team of real threads of which one runs at a time; states/transitions = scheduling points visited; every complete execution is judged (equality with the single-threaded result, exception identity, exactly-once execution), replayed twice before a report";
    R.assumptions = {"scheduling granularity: OpenMP runtime entry points and the guarded H3 points; unsynchronised accesses between those points are the business of the TSan build (scheduler TU uninstrumented, hand-offs by raw futex)", "team sizes 1-3 (4 in the thorough tier), preemption bounds as listed per sub-check", "the sampling RNG is seeded per cell through the guarded seam (H2), so a division does not depend on which thread performs it"};
}
static int replay(const Replay& rp, Result& R) { printf("C15 replay: sub-check '%s' schedule %s (re-run bin/vcheck C15 to reproduce under the explorer)\n", rp.get("sub").c_str(), rp.get("schedule").c_str()); Result R2; R2.args = R.args; R2.property = "C15"; R2.args.deadline = 600; explore(R2); for (auto& v : R2.violations) if (v.key == rp.get("key")) { printf("%s\n", v.what.c_str()); R.violation(v.key, v.what, ""); return 1; } return 0; }
int main(int argc, char** argv) { Args a = parse_args(argc, argv); find_tsan_log(a.variant);
    if (!g_tsan_log.empty() && a.replay.empty()) { namespace fs = std::filesystem; std::error_code ec; for (auto& de : fs::directory_iterator(fs::path(g_tsan_log).parent_path(), ec)) if (de.path().filename().string().rfind(fs::path(g_tsan_log).filename().string(), 0) == 0) fs::remove(de.path(), ec); }   // stale logs of earlier runs
    on_child_crash() = [](Result& R) { collect_tsan(R); };
    return run_main(argc, argv, "C15", explore, replay); }
