// C12 — volume, area, centroid, bounding box, normals: exact and frame independent.
// Exhaustive product: meshes x rigid motions x scalings x node/face permutations x input windings, against a reference
// computed in long double about the mesh's own centre (and, for integer meshes, against the exact integer volume).
#include "sc3d.hpp"
#include "local_mesh_refiner.hpp"
using namespace vf;

struct Variant { int mesh; int rot; int trans; int scale; int nperm; int fperm; unsigned long wind; int windkind; int extra = 0; /* 1 / 2: an unreferenced node (a free slot from the start) stored first / last */ };

static std::vector<sc::Mesh> g_meshes; static std::vector<long> g_exact_vol6;   // 6*volume as an integer, -1 if not an integer mesh
static std::vector<std::array<double, 9>> g_rots; static std::vector<bool> g_rot_exact;
static std::vector<std::array<double, 3>> g_trans; static std::vector<double> g_scales;

static long exact_vol6(const sc::Mesh& m) { __int128 v = 0; for (size_t f = 0; f < m.nf(); f++) { long a[3], b[3], c[3]; for (int k = 0; k < 3; k++) { a[k] = (long)m.pos[3*m.tri[3*f]+k]; b[k] = (long)m.pos[3*m.tri[3*f+1]+k]; c[k] = (long)m.pos[3*m.tri[3*f+2]+k]; }
    v += (__int128)a[0] * (b[1] * c[2] - b[2] * c[1]) - (__int128)a[1] * (b[0] * c[2] - b[2] * c[0]) + (__int128)a[2] * (b[0] * c[1] - b[1] * c[0]); } long r = (long)v; return r < 0 ? -r : r; }

static void setup(bool th) {
    using namespace sc;
    g_meshes = {tetrahedron(), octahedron(), cube12(), prism(), dented_cube(), icosphere(1), scaled(icosphere(1), 2, 1, 0.5)};
    for (auto& v : g_meshes[4].pos) v *= 10; g_meshes[4].name = "dented_cube_x10"; g_meshes[6].name = "ellipsoid_2_1_0.5";
    for (size_t i = 0; i < g_meshes.size(); i++) g_exact_vol6.push_back(i <= 4 ? exact_vol6(g_meshes[i]) : -1);
    auto cr = cube_rotations(); std::vector<int> ids = th ? std::vector<int>{} : std::vector<int>{0, 3, 9, 14, 20, 23};
    if (th) for (int i = 0; i < 24; i++) ids.push_back(i);
    for (int i : ids) { g_rots.push_back(cr[i]); g_rot_exact.push_back(true); }
    g_rots.push_back(rot_z_345()); g_rot_exact.push_back(false); g_rots.push_back(matmul(rot_x_51213(), rot_z_345())); g_rot_exact.push_back(false);
    g_trans = {{0, 0, 0}, {8, -8, 8}, {1024, 1024, -1024}, {1048576, -1048576, 1048576}}; if (th) { g_trans.push_back({0.25, 0, 0}); g_trans.push_back({-3145728, 2097152, 524288}); }
    g_scales = {1.0, 0.5, 2.0, std::ldexp(1.0, -17), std::ldexp(1.0, -30), 0.3 /* not a power of two: products of the scaled coordinates are not numbers a narrower type could hold exactly */}; if (th) { g_scales.push_back(1.1e-6); g_scales.push_back(733.1); }
}

static double mesh_size(const sc::Mesh& m) { double lo[3] = {1e300, 1e300, 1e300}, hi[3] = {-1e300, -1e300, -1e300}; for (size_t i = 0; i < m.nv(); i++) for (int k = 0; k < 3; k++) { lo[k] = std::min(lo[k], m.pos[3*i+k]); hi[k] = std::max(hi[k], m.pos[3*i+k]); } return std::max({hi[0] - lo[0], hi[1] - lo[1], hi[2] - lo[2]}); }

static sc::Mesh build(const Variant& v) {
    const sc::Mesh& base = g_meshes[v.mesh]; double size = mesh_size(base) * g_scales[v.scale];
    std::array<double, 3> t = {g_trans[v.trans][0] * size, g_trans[v.trans][1] * size, g_trans[v.trans][2] * size};
    sc::Mesh m = sc::transformed(base, g_rots[v.rot], t, g_scales[v.scale]);
    size_t nv = m.nv(), nf = m.nf();
    if (v.nperm) { std::vector<unsigned> p(nv); for (size_t i = 0; i < nv; i++) p[i] = v.nperm == 1 ? (unsigned)(nv - 1 - i) : (unsigned)((i + 1) % nv); m = sc::renumbered(m, p); }
    if (v.fperm) { std::vector<unsigned> t2(m.tri.size()); for (size_t f = 0; f < nf; f++) { size_t g = v.fperm == 1 ? nf - 1 - f : (f + 1) % nf; for (int k = 0; k < 3; k++) t2[3*g+k] = m.tri[3*f+k]; } m.tri = t2; }
    for (size_t f = 0; f < nf; f++) { bool flip = false; switch (v.windkind) { case 0: flip = f < 64 && (v.wind >> f & 1); break; case 1: flip = true; break; case 2: flip = f % 2; break; case 3: flip = (f == v.wind); break; }
        if (flip) std::swap(m.tri[3*f+1], m.tri[3*f+2]); }
    if (v.extra == 1) { m.pos.insert(m.pos.begin(), {m.pos[3], m.pos[4], m.pos[5]}); for (auto& id : m.tri) id++; }
    if (v.extra == 2) { m.pos.push_back(m.pos[0]); m.pos.push_back(m.pos[1]); m.pos.push_back(m.pos[2]); }
    return m;
}

struct Metrics { double vol, area, cen[3], box[6], axis[3]; };

static std::string check(const Variant& v, Metrics* out = nullptr, double* worst_vol = nullptr) {
    sc::Mesh m = build(v); const sc::Mesh& base = g_meshes[v.mesh]; const double s = g_scales[v.scale]; const double size = mesh_size(base) * s;
    auto c = std::make_shared<cell>(m.pos, m.tri, 0u);
    char buf[400]; std::string err;
    try { c->initialize_cell_properties(); } catch (std::exception& e) { err = std::string("initialisation-rejected-a-closed-mesh: ") + e.what(); c->clear_data(); return err; }
    sc::OracleOpts o; std::string me = sc::oracle_mesh(*c, o);
    if (!me.empty()) { c->clear_data(); return "after-initialisation-" + me; }
    sc::Geom g = sc::geom_of(*c);
    // reference sanity: scale law on the reference itself (guards the oracle, not the code)
    static std::map<int, long double> base_vol; if (!base_vol.count(v.mesh)) { auto c0 = std::make_shared<cell>(base.pos, base.tri, 0u); c0->initialize_cell_properties(); base_vol[v.mesh] = sc::geom_of(*c0).vol; c0->clear_data(); }
    // transformed coordinates are rounded to double: far from the origin the *input* mesh itself differs from the ideal one by
    // ~eps*|t|, which bounds how closely any quantity of it can agree with the untransformed mesh (not the code's error)
    const double input_noise = 2.3e-16 * (std::fabs(g_trans[v.trans][0]) + 1) * 40;
    long double vref = base_vol[v.mesh] * s * s * s;
    if (g_exact_vol6[v.mesh] >= 0) { long double ve = (long double)g_exact_vol6[v.mesh] / 6 * s * s * s; if (fabsl(ve - vref) > 1e-12L * ve) { c->clear_data(); return "INTERNAL reference volume disagrees with exact integer volume"; } vref = ve; }
    if (fabsl(g.vol - vref) > (1e-10L + input_noise) * vref) { c->clear_data(); return "INTERNAL reference volume not invariant"; }
    if (g_exact_vol6[v.mesh] < 0 || !g_rot_exact[v.rot]) vref = g.vol;      // non-lattice input: the reference is the volume of the mesh as actually given
    const double vol = c->get_volume(), area = c->get_area(); vec3 cen = c->compute_centroid(); auto bb = c->get_aabb();
    if (worst_vol) *worst_vol = std::max(*worst_vol, (double)(fabsl(vol - vref) / vref));
    if (!(std::fabs(vol - (double)vref) <= 1e-9 * (double)vref)) { snprintf(buf, sizeof buf, "volume-differs-from-enclosed-volume: reported %.17g reference %.17g (relative error %.3g)", vol, (double)vref, (double)(fabsl(vol - vref) / vref)); err = buf; }
    else if (!(std::fabs(area - (double)g.area) <= 1e-9 * (double)g.area)) { snprintf(buf, sizeof buf, "area-differs-from-sum-of-triangle-areas: reported %.17g reference %.17g", area, (double)g.area); err = buf; }
    else { double tmag = std::fabs(g_trans[v.trans][0]) * size; double ctol = 1e-9 * size + 1e-13 * tmag;
        if (std::fabs(cen.dx() - (double)g.cx) > ctol || std::fabs(cen.dy() - (double)g.cy) > ctol || std::fabs(cen.dz() - (double)g.cz) > ctol) { snprintf(buf, sizeof buf, "centroid-differs-from-area-weighted-mean: reported (%.17g,%.17g,%.17g) reference (%.17g,%.17g,%.17g)", cen.dx(), cen.dy(), cen.dz(), (double)g.cx, (double)g.cy, (double)g.cz); err = buf; }
        else for (int k = 0; k < 6; k++) if (bb[k] != g.box[k]) { snprintf(buf, sizeof buf, "bounding-box-not-tight: component %d reported %.17g reference %.17g", k, bb[k], g.box[k]); err = buf; break; } }
    if (out) { out->vol = vol; out->area = area; out->cen[0] = cen.dx(); out->cen[1] = cen.dy(); out->cen[2] = cen.dz(); for (int k = 0; k < 6; k++) out->box[k] = bb[k]; vec3 ax = c->get_cell_longest_axis(); out->axis[0] = ax.dx(); out->axis[1] = ax.dy(); out->axis[2] = ax.dz(); }
    c->clear_data();
    return err;
}

static std::string vtext(const Variant& v) { std::ostringstream o; o << v.mesh << " " << v.rot << " " << v.trans << " " << v.scale << " " << v.nperm << " " << v.fperm << " " << v.wind << " " << v.windkind << " " << v.extra; return o.str(); }
static std::string vjson(const Variant& v) { std::ostringstream o; o << "{\"mesh\":\"" << g_meshes[v.mesh].name << "\",\"rotation\":" << v.rot << ",\"translation_in_sizes\":[" << g_trans[v.trans][0] << "," << g_trans[v.trans][1] << "," << g_trans[v.trans][2] << "],\"scale\":" << jnum(g_scales[v.scale]) << ",\"node_perm\":" << v.nperm << ",\"face_perm\":" << v.fperm << ",\"winding_kind\":" << v.windkind << ",\"winding_mask\":" << v.wind << "}"; return o.str(); }

// a living cell: real edge collapses / splits in one of four orders, no rebase; the getters must describe the live surface.  Returns "", "skip" (the history is not applicable to this mesh) or the violated clause
static std::string check_living(int mi, int ti, int hist) {
        const sc::Mesh& base = g_meshes[mi]; const double size = mesh_size(base); std::array<double, 3> t = {g_trans[ti][0] * size, g_trans[ti][1] * size, g_trans[ti][2] * size};
        sc::Mesh m = sc::transformed(base, g_rots.back(), t, 1.0); auto c = std::make_shared<cell>(m.pos, m.tri, 0u); c->initialize_cell_properties(); local_mesh_refiner lmr(1e-9 * size, 1e9 * size, true);
        auto merge_one = [&](bool highest) { std::optional<edge> pick; unsigned best = highest ? 0 : ~0u; for (const edge& e0 : c->get_edge_set()) { edge e = e0; bool can = false; try { can = lmr.can_be_merged(e, c); } catch (...) {} if (!can) continue; unsigned lo = std::min(e0.n1(), e0.n2()); if (highest ? lo >= best : lo <= best) { best = lo; pick = e0; } } if (!pick) return false; edge e = *pick; edge_set es = c->get_edge_set(); try { lmr.merge_edge(e, c, es); } catch (...) { return false; } return true; };
        auto split_one = [&]() { edge e = *c->get_edge_set().begin(); edge_set es = c->get_edge_set(); try { lmr.split_edge(e, c, es); } catch (...) {} };
        bool ok = true; switch (hist) { case 0: ok = merge_one(false); break; case 1: ok = merge_one(true) && merge_one(false); break; case 2: split_one(); ok = merge_one(true); break; case 3: ok = merge_one(false) && merge_one(false); split_one(); break;
            default: { // collapse one of the three edges of the triangle stored in face slot 0 (the slot, and nodes it still names, are free afterwards), optionally followed by another collapse elsewhere
                const int which = (hist - 4) % 3, follow = (hist - 4) / 3; const face& f0 = c->face_lst_[0]; const unsigned pr[3][2] = {{f0.n1_id_, f0.n2_id_}, {f0.n2_id_, f0.n3_id_}, {f0.n3_id_, f0.n1_id_}}; ok = false;
                auto eo = c->get_edge(pr[which][0], pr[which][1]); if (eo) { edge e = *eo; bool can = false; try { can = lmr.can_be_merged(e, c); } catch (...) {} if (can) { edge_set es = c->get_edge_set(); try { lmr.merge_edge(e, c, es); ok = !c->face_lst_[0].is_used_; } catch (...) {} } }
                if (ok && follow == 1) ok = merge_one(false); if (ok && follow == 2) ok = merge_one(true); } }
        if (!ok || c->get_nb_of_nodes() == c->node_lst_.size() || !sc::oracle_mesh(*c, [] { sc::OracleOpts o; o.check_cached_geometry = false; o.flat_is_error = false; return o; }()).empty()) { c->clear_data(); return "skip"; }
        // what the collapses and splits themselves leave behind (no node has moved since the caches were computed, so every cached triangle area and normal must be that of the triangle as it is now):
        // the area the cell reports from its caches is the sum of the triangle areas, before any refresh
        { char b0[300]; long double asum = 0; for (const face& f : c->face_lst_) { if (!f.is_used_) continue; const vec3 &p0 = c->node_lst_[f.n1_id_].pos_, &p1 = c->node_lst_[f.n2_id_].pos_, &p2 = c->node_lst_[f.n3_id_].pos_; const vec3 nn = (p1 - p0).cross(p2 - p0); const double a = 0.5 * nn.norm(); asum += a;
              if (std::fabs(f.get_area() - a) > 1e-9 * size * size) { snprintf(b0, sizeof b0, "area-differs-from-sum-of-triangle-areas: after the remeshing operations alone, face %u caches the area %.17g, its triangle has %.17g", f.local_face_id_, f.get_area(), a); c->clear_data(); return b0; }
              if (a > 1e-9 * size * size && f.get_normal().dot(nn) <= 0) { snprintf(b0, sizeof b0, "normal-does-not-point-out-of-the-cell: after the remeshing operations alone, the cached normal of face %u opposes its winding", f.local_face_id_); c->clear_data(); return b0; } }
          const double rep = c->compute_area(); if (std::fabs(rep - (double)asum) > 1e-9 * (double)asum) { snprintf(b0, sizeof b0, "area-differs-from-sum-of-triangle-areas: after the remeshing operations alone the cell reports %.17g, the live triangles add up to %.17Lg", rep, asum); c->clear_data(); return b0; } }
        c->update_all_face_normals_and_areas(); c->area_ = c->compute_area(); c->volume_ = c->compute_volume(); sc::Geom g = sc::geom_of(*c); char buf[300]; std::string e;
        const double tmag = std::fabs(g_trans[ti][0]) * size, ctol = 1e-9 * size + 1e-13 * tmag; vec3 cen = c->compute_centroid(); auto bb = c->get_aabb();
        if (!(std::fabs(c->get_volume() - (double)g.vol) <= (1e-9 + 2.3e-16 * (std::fabs(g_trans[ti][0]) + 1) * 40) * (double)g.vol)) { snprintf(buf, sizeof buf, "volume-differs-from-enclosed-volume: living cell reports %.17g, live triangles enclose %.17g", c->get_volume(), (double)g.vol); e = buf; }
        else if (!(std::fabs(c->get_area() - (double)g.area) <= 1e-9 * (double)g.area)) { snprintf(buf, sizeof buf, "area-differs-from-sum-of-triangle-areas: living cell reports %.17g reference %.17g", c->get_area(), (double)g.area); e = buf; }
        else if (std::fabs(cen.dx() - (double)g.cx) > ctol || std::fabs(cen.dy() - (double)g.cy) > ctol || std::fabs(cen.dz() - (double)g.cz) > ctol) { snprintf(buf, sizeof buf, "centroid-differs-from-area-weighted-mean: living cell reports (%.17g,%.17g,%.17g)", cen.dx(), cen.dy(), cen.dz()); e = buf; }
        else for (int k = 0; k < 6; k++) if (bb[k] != g.box[k]) { snprintf(buf, sizeof buf, "bounding-box-not-tight: living cell, component %d reported %.17g reference %.17g", k, bb[k], g.box[k]); e = buf; break; }
        c->clear_data();
        return e;
}

static void report(Result& R, const Variant& v, const std::string& err) {
    std::string where = v.trans == 0 ? "at-origin" : (std::fabs(g_trans[v.trans][0]) >= 1000 ? "far-from-origin" : "near-origin");
    R.violation(clause_of(err) + "|" + where, err + " [" + vjson(v) + "]", "case=" + vtext(v) + "\n");
}

static void explore(Result& R) {
    const bool th = R.args.thorough(); setup(th);
    long evals = 0, distinct = 0; double worst_vol = 0; std::map<std::string, long>& tab = R.tables["cases_per_block"];
    // Block A: every input winding pattern (all 2^F for F <= 8; single flips, all, alternating beyond), three placements
    std::vector<std::array<int, 3>> placements = {{0, 0, 0}, {2, 2, 0}, {(int)g_rots.size() - 1, 1, 1}, {(int)g_rots.size() - 1, 3, 0}};   // the last one 2^20 mesh sizes from the origin
    for (int mi = 0; mi < (int)g_meshes.size(); mi++) { size_t F = g_meshes[mi].nf();
        std::vector<std::pair<int, unsigned long>> winds;
        if (F <= 8) for (unsigned long w = 0; w < (1ul << F); w++) winds.push_back({0, w}); else { winds.push_back({0, 0}); winds.push_back({1, 0}); winds.push_back({2, 0}); for (size_t f = 0; f < F; f++) winds.push_back({3, f}); }
        for (auto& pl : placements) for (auto& w : winds) { Variant v{mi, pl[0], pl[1], pl[2], 0, 0, w.second, w.first}; std::string e = check(v, nullptr, &worst_vol); evals++; distinct++; tab["windings"]++;
            if (e.rfind("INTERNAL", 0) == 0) { R.internal_error = e; return; } if (!e.empty()) report(R, v, e); } }
    // Block B: every motion x scale x permutations, three winding patterns; frame independence of all getters
    for (int mi = 0; mi < (int)g_meshes.size() && !R.out_of_time(0.9); mi++) {
        Metrics base; Variant v0{mi, 0, 0, 0, 0, 0, 0, 0}; check(v0, &base);
        for (int ri = 0; ri < (int)g_rots.size(); ri++) for (int ti = 0; ti < (int)g_trans.size(); ti++) for (int si = 0; si < (int)g_scales.size(); si++)
        for (int np = 0; np < 3; np++) for (int fp = 0; fp < (th ? 3 : 2); fp++) for (int wk = 0; wk < 3; wk++) {
            Variant v{mi, ri, ti, si, np, fp, 0, wk}; Metrics mt; std::string e = check(v, &mt, &worst_vol); evals++; distinct++; tab["motions"]++;
            if (e.rfind("INTERNAL", 0) == 0) { R.internal_error = e; return; }
            if (e.empty()) { // scale laws and invariance against the untransformed cell
                double s = g_scales[si]; char buf[300];
                const double input_noise = 2.3e-16 * (std::fabs(g_trans[ti][0]) + 1) * 40;
                if (std::fabs(mt.vol - base.vol * s * s * s) > (1e-9 + input_noise) * base.vol * s * s * s) { snprintf(buf, sizeof buf, "volume-not-invariant-under-motion-or-renumbering: %.17g vs %.17g * s^3", mt.vol, base.vol); e = buf; }
                else if (std::fabs(mt.area - base.area * s * s) > (1e-9 + input_noise) * base.area * s * s) { snprintf(buf, sizeof buf, "area-not-invariant-under-motion-or-renumbering: %.17g vs %.17g * s^2", mt.area, base.area); e = buf; }
                else if ((mi == 3 || mi == 6)) { // unique longest axis: follows the rotation up to sign
                    const auto& Rm = g_rots[ri]; double ex[3]; for (int i = 0; i < 3; i++) ex[i] = Rm[3*i] * base.axis[0] + Rm[3*i+1] * base.axis[1] + Rm[3*i+2] * base.axis[2];
                    double d = ex[0] * mt.axis[0] + ex[1] * mt.axis[1] + ex[2] * mt.axis[2]; tab["longest_axis_checks"]++;
                    if (!(std::fabs(std::fabs(d) - 1.0) < 1e-6)) { snprintf(buf, sizeof buf, "longest-axis-does-not-follow-rotation: |cos| = %.9g", std::fabs(d)); e = buf; } }
            }
            if (!e.empty()) report(R, v, e);
            if (evals % 4000 == 1) R.sample(vjson(v));
        } }
    // Block C: a node slot that is free from the start (an input point no triangle refers to), stored first or last: the getters range over live nodes only
    for (int mi = 0; mi < (int)g_meshes.size() && !R.out_of_time(0.9); mi++) for (int ri = 0; ri < (int)g_rots.size(); ri += 2) for (int ti = 0; ti < (int)g_trans.size(); ti++) for (int ex = 1; ex <= 2; ex++) for (int wk = 0; wk < 2; wk++) {
        Variant v{mi, ri, ti, 0, 0, 0, 0, wk, ex}; std::string e = check(v, nullptr, &worst_vol); evals++; distinct++; tab["free_slot_from_the_start"]++;
        if (e.rfind("INTERNAL", 0) == 0) { R.internal_error = e; return; } if (!e.empty()) report(R, v, e); }
    // Block D: living cells: after real edge collapses / splits (free node and face slots anywhere in the lists, no rebase) the getters still describe the live surface
    { long living = 0; for (int mi = 1; mi < (int)g_meshes.size() && !R.out_of_time(0.9); mi++) for (int ti = 0; ti < (int)g_trans.size(); ti++) for (int hist = 0; hist < 13; hist++) {
        std::string e = check_living(mi, ti, hist); if (e == "skip") continue; evals++; distinct++; living++; tab["living_cells_with_free_slots"]++;
        if (!e.empty()) R.violation(clause_of(e) + "|living-cell", e + " [mesh " + g_meshes[mi].name + ", translation index " + std::to_string(ti) + ", remeshing history " + std::to_string(hist) + "]", "mode=living\nmesh=" + std::to_string(mi) + "\ntrans=" + std::to_string(ti) + "\nhist=" + std::to_string(hist) + "\n"); }
      if (!living && R.violations.empty()) R.internal_error = "no living cell with free slots was produced (vacuous)"; }
    if (R.out_of_time(0.9)) R.cap("deadline");
    R["evaluations"] = evals; R["transitions"] = evals; R["states"] = distinct; R["distinct_nontrivial"] = distinct; R["traces_validated_against_impl"] = evals;
    R["meshes"] = g_meshes.size(); R["motions"] = g_rots.size() * g_trans.size() * g_scales.size();
    R.reals["worst_relative_volume_error"] = worst_vol;
    R.strings["rule"] = "a case = (mesh, rotation, translation in mesh sizes, uniform scale, node permutation, face permutation, winding pattern); each builds a real cell, runs initialize_cell_properties and compares volume/area/centroid/box/orientation with a long double reference about the mesh centre (exact integer volume for the five integer meshes), plus invariance and scale laws against the untransformed cell; all cases are distinct by construction";
    R.assumptions = {"tolerance 1e-9 relative on volume and area, 1e-9*size + 1e-13*|t| on the centroid, exact equality on the box", "translations are multiples of the mesh size up to 2^20 (thorough: also (-3, 2, 0.5) x 2^20 and a quarter size)", "longest-axis clause only on the two meshes with a unique longest axis (prism, ellipsoid), tolerance 1e-6"};
}

static int replay(const Replay& rp, Result& R) {
    setup(rp.get("tier", "quick") == "thorough");   // the index tables depend on the tier the case came from
    if (rp.get("mode") == "living") { std::string a = check_living((int)rp.geti("mesh"), (int)rp.geti("trans"), (int)rp.geti("hist")), b = check_living((int)rp.geti("mesh"), (int)rp.geti("trans"), (int)rp.geti("hist")); if (a != b) { printf("replay diverged\n"); return 0; } printf("%s\n", a.c_str()); if (!a.empty() && a != "skip") { R.violation(clause_of(a), a, ""); return 1; } return 0; }
    Variant v; std::istringstream i(rp.get("case")); i >> v.mesh >> v.rot >> v.trans >> v.scale >> v.nperm >> v.fperm >> v.wind >> v.windkind; if (!(i >> v.extra)) v.extra = 0;
    std::string e1 = check(v), e2 = check(v); if (e1 != e2) { printf("replay diverged\n"); return 0; }
    printf("case %s\n%s\n", vjson(v).c_str(), e1.c_str());
    if (!e1.empty()) { R.violation(clause_of(e1), e1, ""); return 1; } return 0;
}
int main(int argc, char** argv) { return run_main(argc, argv, "C12", explore, replay); }
