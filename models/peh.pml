/* Protocol model of parallel_exception_handler (include/utils.hpp): a team of T threads shares N items by the static schedule of
   `#pragma omp parallel for`; an item may throw; the catch block stores the exception in the shared pointer inside `omp critical`;
   after the region the caller rethrows what the pointer holds.  Parameters (-D): N, T, MASK (bit i = item i throws), V (value whose
   reachability as the final content of the pointer is asked: the assertion fails iff V is reachable).  NONE = 255 = nothing stored.
   engine/c15_model.py runs this model for every V and compares the reachable set with the outcomes the explorer observed on the real code. */
#define NONE 255
byte ran[N];
byte eptr = NONE;
byte done = 0;
bool in_critical = false;

proctype worker(byte me) {
    byte q, r, lo, hi, i;
    q = N / T; r = N % T;
    if
    :: me < r -> lo = me * (q + 1); hi = lo + q + 1
    :: else   -> lo = me * q + r;   hi = lo + q
    fi;
    i = lo;
    do
    :: i < hi ->
        ran[i] = ran[i] + 1;                         /* func(vec[i]) */
        if
        :: ((MASK >> i) & 1) ->                      /* it throws: catch(...) { #pragma omp critical { e_ptr = current_exception(); } } */
            atomic { !in_critical -> in_critical = true };
            eptr = i;
            in_critical = false
        :: else -> skip
        fi;
        i++
    :: else -> break
    od;
    done++
}

init {
    byte t = 0;
    atomic { do :: t < T -> run worker(t); t++ :: else -> break od };
    done == T;                                       /* implicit barrier at the end of the region */
    /* every item ran exactly once */
    t = 0; do :: t < N -> assert(ran[t] == 1); t++ :: else -> break od;
    /* an exception is pending iff some item threw, and it is one that was thrown */
    assert((eptr == NONE) == (MASK == 0));
    assert(eptr == NONE || ((MASK >> eptr) & 1));
    assert(eptr != V)                                /* reachability query */
}
