"""C10 — no invalid memory access / undefined behaviour: monitors over the exhaustive drivers of the other properties (DESIGN.md 3, C10).

No new driver: the scenario set is the union of the executions of the listed delegate harnesses (remeshing BFS, division/removal histories,
division pipeline, initial triangulation, writer/reader round trip, complete runs with file output and tear-down).  Each delegate is

  1. run under the ASan+UBSan build; the first sanitizer report (or crash) of a delegate is a violation, keyed by (kind, first repository frame);
  2. run under the plain build with the contents of fresh and freed heap memory ENUMERATED through glibc's own allocator
     (GLIBC_TUNABLES=glibc.malloc.tcache_count=0:glibc.malloc.perturb=N, N in {255, 85, 1, 128}: fresh blocks are filled with ~N, freed
     blocks with N) and under the -ftrivial-auto-var-init=zero / =pattern builds (stack); the order-independent digest of every observable
     result of the delegate must be identical for all fills: "results never depend on the contents of freed or uninitialised memory".
"""
import os, re, json, time, subprocess, glob
from concurrent.futures import ThreadPoolExecutor
import vbuild

VERIF = os.path.dirname(os.path.dirname(os.path.abspath(__file__)))
FILLS = [255, 85, 1, 128]
FILLS_QUICK = [255, 128]      # fresh memory reads as 0.0 / 1.4e306 (freed: -nan / -2.9e-306): the two most different worlds


def first_repo_frame(text):
    for l in text.splitlines():
        m = re.search(r'#\d+ \S+ in (.+?) (/\S+?):(\d+)', l)
        if m and ('/src/' in m.group(2) or '/include/' in m.group(2) or 'main.cpp' in m.group(2)) and '/usr/include' not in m.group(2) and '/verif/' not in m.group(2):
            fn = m.group(1)
            fn = re.sub(r'\(.*', '', fn)
            return '%s@%s:%s' % (fn[:80], os.path.basename(m.group(2)), m.group(3))
    return '?'


def asan_summary(logprefix):
    out = []
    for f in sorted(glob.glob(logprefix + '*')):
        t = open(f, errors='replace').read()
        m = re.search(r'ERROR: AddressSanitizer: (\S+)', t)
        if m:
            out.append(('asan:' + m.group(1), first_repo_frame(t), t[:3000]))
        m = re.search(r'runtime error: (.*)', t)
        if m:
            out.append(('ubsan:' + m.group(1)[:60], first_repo_frame(t), t[:3000]))
        try:
            os.remove(f)
        except OSError:
            pass
    return out


def run(cfg, all_checks, tier, seed, repo, replay_dir):
    t0 = time.time()
    try:
        known_all = json.load(open(os.path.join(VERIF, 'known_findings.json'))).get('findings', [])
    except Exception:
        known_all = []
    delegates = cfg['delegates'][tier] if isinstance(cfg['delegates'], dict) else cfg['delegates']
    coverage = {'delegates': {}, 'samples': []}
    violations, internal = [], []
    jobs = []   # (delegate id, mode, variant, env, shard, nshards): the delegates' own work splitting is reused; digests are additive over shards
    for d in delegates:
        ns = int(all_checks[d].get('shards', {}).get('quick', 1))
        for k in range(ns):
            jobs.append((d, 'asan', 'asan-c1d0', {}, k, ns))
            if tier == 'thorough':
                for xv in cfg.get('extra_asan_variants', {}).get(d, []):
                    jobs.append((d, 'asan_' + xv, xv, {}, k, ns))     # further compile-time configurations under the sanitizers
            for n in (FILLS if tier == 'thorough' else FILLS_QUICK):
                jobs.append((d, 'fill%d' % n, 'plain-c1d0', {'GLIBC_TUNABLES': 'glibc.malloc.tcache_count=0:glibc.malloc.perturb=%d' % n}, k, ns))
            if d in cfg.get('stack_fill_delegates', []):
                jobs.append((d, 'stack-zero', 'init0-c1d0', {}, k, ns))
                jobs.append((d, 'stack-pattern', 'initP-c1d0', {}, k, ns))
    jobs.sort(key=lambda j: 0 if j[1].startswith('asan') else 1)     # the slow sanitizer runs first
    # build everything first
    exes = {}
    for d, mode, variant, env, _k, _ns in jobs:
        if (d, variant) in exes:
            continue
        try:
            exes[(d, variant)] = vbuild.build_harness(repo, all_checks[d], variant)
        except vbuild.BuildError as e:
            internal.append('build failed for delegate %s/%s: %s' % (d, variant, str(e)[-1500:]))
            return coverage, [], violations, internal
    deadline = cfg.get('delegate_deadline_s', {}).get(tier, 120)

    def one(job):
        d, mode, variant, extra, shard, nshards = job
        exe = exes[(d, variant)]
        out = os.path.join(VERIF, 'build', 'run', 'C10-%s-%s-%d-%d.json' % (d, mode, os.getpid(), shard))
        logp = os.path.join(VERIF, 'build', 'run', 'asan-c10-%s-%s-%d-%d' % (d, mode, os.getpid(), shard))
        env = dict(os.environ)
        env.update(all_checks[d].get('env', {}))
        env.update(extra)
        env['VERIF_DIR'] = VERIF
        env['VERIF_KNOWN_KEYS'] = '\n'.join(k.get('key', '') for k in known_all if k.get('property') == d and k.get('status') == 'known')
        env['VERIF_MONITOR'] = '1'      # delegates do not cut a history short at their own (functional) violations: the monitors watch what the code does next
        if mode.startswith('asan'):
            env['ASAN_OPTIONS'] = 'detect_leaks=0:abort_on_error=0:log_path=%s' % logp
            env['UBSAN_OPTIONS'] = 'print_stacktrace=1:log_path=%s' % logp
        cmd = [exe, '--tier', 'quick', '--seed', str(seed), '--out', out, '--replaydir', replay_dir, '--variant', variant,
               '--deadline', str(deadline * (3 if mode.startswith('asan') else 1)), '--repo', repo, '--shard', str(shard), '--nshards', str(nshards)]
        try:
            subprocess.run(cmd, cwd=VERIF, env=env, stdout=subprocess.PIPE, stderr=subprocess.PIPE, text=True, errors='replace', timeout=deadline * 8 + 120)
        except subprocess.TimeoutExpired:
            return job, None, 'delegate %s/%s did not finish' % (d, mode), []
        res = None
        if os.path.exists(out):
            try:
                res = json.load(open(out))
            except Exception:
                res = None
            os.remove(out)
        if os.path.exists(out + '.distinct'):
            os.remove(out + '.distinct')
        reports = asan_summary(logp) if mode.startswith('asan') else []
        return job, res, None, reports

    with ThreadPoolExecutor(max_workers=int(cfg.get('parallel', 12))) as ex:
        results = list(ex.map(one, jobs))

    digests = {}
    total_states = total_trans = 0
    for (d, mode, variant, extra, shard, nshards), res, err, reports in results:
        if err or res is None:
            internal.append(err or 'delegate %s/%s produced no result' % (d, mode))
            continue
        cov = res.get('coverage', {})
        entry = coverage['delegates'].setdefault(d, {})
        prev = entry.get(mode)
        cur = {'states': cov.get('states') or 0, 'transitions': cov.get('transitions') or 0, 'digest': cov.get('digest') or '0', 'exhaustive': bool(cov.get('exhaustive')), 'shards': 1}
        if prev:
            cur = {'states': prev['states'] + cur['states'], 'transitions': prev['transitions'] + cur['transitions'], 'digest': '%016x' % ((int(prev['digest'], 16) + int(cur['digest'], 16)) % (1 << 64)),
                   'exhaustive': prev['exhaustive'] and cur['exhaustive'], 'shards': prev['shards'] + 1}
            if 'not_compared' in prev:
                cur['not_compared'] = prev['not_compared']
        entry[mode] = cur
        if mode.startswith('asan'):
            total_states += cov.get('states', 0) or 0
            total_trans += cov.get('transitions', 0) or 0
            for kind, frame, text in reports:
                key = '%s|%s' % (kind, frame)
                path = os.path.join(replay_dir, 'C10-%s-%d-%d.replay' % (d, os.getpid(), len(violations)))
                crashes = [v for v in res.get('violations', []) if v.get('key', '').startswith('crash:')]
                body = ''
                if crashes and os.path.exists(crashes[0].get('replay', '')):
                    body = open(crashes[0]['replay']).read()
                with open(path, 'w') as f:
                    f.write('variant=%s\ntier=%s\nproperty=C10\ndelegate=%s\nkey=%s\n' % (variant, tier, d, key))
                    f.write('what=' + text.splitlines()[1][:300] + '\n' if len(text.splitlines()) > 1 else '')
                    f.write('--- delegate case ---\n' + body + '\n--- sanitizer report ---\n' + text)
                violations.append({'key': key, 'what': 'driver %s under ASan+UBSan: %s, first repository frame %s' % (d, kind, frame), 'replay': path})
            if not reports:
                for v in res.get('violations', []):
                    if v.get('key', '').startswith('crash:'):
                        violations.append({'key': 'crash|%s|%s' % (d, v['key']), 'what': 'driver %s under ASan+UBSan terminated without a sanitizer report: %s' % (d, v.get('what', '')[:300]), 'replay': v.get('replay', '')})
        else:
            for v in res.get('violations', []):
                if v.get('key', '').startswith('crash:'):
                    violations.append({'key': 'crash|%s|%s|%s' % (d, mode, v['key']), 'what': 'driver %s with %s crashed: %s' % (d, mode, v.get('what', '')[:300]), 'replay': v.get('replay', '')})
            if not (cov.get('exhaustive') and not [v for v in res.get('violations', []) if v.get('key', '').startswith('crash:')]):
                entry[mode]['not_compared'] = 'run capped by its deadline or crashed'
    for d, entry in coverage['delegates'].items():
        for mode, e in entry.items():
            if not mode.startswith('asan') and 'not_compared' not in e:
                digests.setdefault(d, {})[mode] = (e['digest'], e['states'], e['transitions'])
    compared = 0
    groups = []
    for d, m in digests.items():
        groups.append((d, {k: v for k, v in m.items() if k.startswith('fill')}))
        groups.append((d, {k: v for k, v in m.items() if k.startswith('stack')}))
    for d, m in groups:
        if not m:
            continue
        vals = set(m.values())
        compared += len(m)
        if len(vals) > 1:
            path = os.path.join(replay_dir, 'C10-%s-%d-fill.replay' % (d, os.getpid()))
            with open(path, 'w') as f:
                f.write('variant=plain-c1d0\ntier=%s\nproperty=C10\ndelegate=%s\nkey=result-depends-on-memory-fill|%s\n' % (tier, d, d))
                f.write(json.dumps(m, indent=1))
            violations.append({'key': 'result-depends-on-memory-fill|%s' % d,
                               'what': 'driver %s: the digest of all observable results differs between heap/stack fill patterns %s' % (d, json.dumps(m)), 'replay': path})
    coverage['states'] = total_states
    coverage['transitions'] = total_trans
    coverage['evaluations'] = len(jobs)
    coverage['distinct_nontrivial'] = len(jobs)
    coverage['traces_validated_against_impl'] = total_trans
    coverage['fill_runs_compared'] = compared
    coverage['exhaustive'] = all((e.get('asan') or {}).get('exhaustive') for e in coverage['delegates'].values()) if coverage['delegates'] else False
    coverage['samples'] = [{'delegate': d, 'mode': mode, 'variant': variant, 'env': extra, 'shard': '%d/%d' % (k, ns)} for (d, mode, variant, extra, k, ns) in jobs[:6]]
    coverage['rule'] = ('states/transitions = those of the delegate drivers under the ASan+UBSan build (union of their exhaustive explorations); evaluations = delegate runs '
                        '(1 sanitizer run + %d heap fills [+ 2 stack fills] per delegate and shard); a violation = a sanitizer report / crash in any delegate, or digests that differ between fills' % len(FILLS if tier == 'thorough' else FILLS_QUICK))
    assumptions = ['scenario set = union of the quick-tier explorations of ' + ', '.join(delegates) + ' (plus C15 and C17, which run their own ASan/TSan builds)',
                   'heap contents are enumerated through glibc (tcache off, perturb byte N: fresh = ~N, freed = N), stack contents through -ftrivial-auto-var-init; a fill run that was capped by its deadline is not compared',
                   'functional violations of the delegates are the business of their own properties and are ignored here']
    return coverage, assumptions, violations, internal
