#pragma once
// Shared plumbing of the harnesses: argument parsing, result/evidence accumulation, violations with replay files,
// deadlines, fork isolation.  Plain C++17, no dependency on the repository.
#include <sys/stat.h>
#include <ctime>
#include <unistd.h>
#include <string>
#include <vector>
#include <map>
#include <deque>
#include <unordered_set>
#include <set>
#include <sstream>
#include <fstream>
#include <iostream>
#include <functional>
#include <chrono>
#include <cstdio>
#include <cstdlib>
#include <cstring>
#include <cmath>
#include <cstdint>
#include <unistd.h>
#include <sys/wait.h>
#include <sys/mman.h>
#include <signal.h>

namespace vf {

inline std::string jesc(const std::string& s) {
    std::string o = "\"";
    for (unsigned char c : s) {
        if (c == '"') o += "\\\""; else if (c == '\\') o += "\\\\"; else if (c == '\n') o += "\\n"; else if (c == '\t') o += "\\t";
        else if (c < 0x20 || c >= 0x7f) { char b[8]; snprintf(b, sizeof b, "\\u%04x", c); o += b; } else o += (char)c;
    }
    return o + "\"";
}
inline std::string clause_of(const std::string& err) { auto p = err.find(':'); return p == std::string::npos ? err : err.substr(0, p); }
inline std::string jnum(double d) { if (!std::isfinite(d)) return "null"; char b[40]; snprintf(b, sizeof b, "%.17g", d); return b; }

struct Args {
    std::string tier = "quick", out, replay, replaydir = "build/replay", variant = "plain-c1d0", repo = "/repo";
    long seed = 0; double deadline = 170; int shard = 0, nshards = 1;
    bool mine(long unit) const { return nshards <= 1 || (unit % nshards) == shard; }   // work splitting between parallel processes
    bool thorough() const { return tier == "thorough"; }
};
inline Args parse_args(int argc, char** argv) {
    Args a;
    for (int i = 1; i + 1 < argc; i += 2) {
        std::string k = argv[i], v = argv[i + 1];
        if (k == "--tier") a.tier = v; else if (k == "--out") a.out = v; else if (k == "--replay") a.replay = v;
        else if (k == "--replaydir") a.replaydir = v; else if (k == "--variant") a.variant = v; else if (k == "--seed") a.seed = atol(v.c_str());
        else if (k == "--deadline") a.deadline = atof(v.c_str()); else if (k == "--repo") a.repo = v; else if (k == "--shard") a.shard = atoi(v.c_str()); else if (k == "--nshards") a.nshards = atoi(v.c_str());
    }
    return a;
}


// scratch space of a run: memory-backed when the machine offers it (the solver-level harnesses create and remove an output folder per execution; on a loaded disk that
// latency, not the code under test, decided how much a deadline could cover), else under build/run.  Every harness removes what it created; bin/vcheck sweeps what a crash leaves.
inline std::string scratch_base() { static std::string d; if (!d.empty()) return d; const char* e = getenv("VERIF_SCRATCH"); if (e && *e) d = e; else if (access("/dev/shm", W_OK) == 0) d = "/dev/shm/verif-scratch"; else d = std::string(getenv("VERIF_DIR") ? getenv("VERIF_DIR") : ".") + "/build/run";
    std::string cmd = d; for (size_t i = 1; i <= cmd.size(); i++) if (i == cmd.size() || cmd[i] == '/') { std::string sub = cmd.substr(0, i); mkdir(sub.c_str(), 0777); } return d; }

struct Violation { std::string key, what, replay; };

struct Result {
    std::string property;
    Args args;
    std::map<std::string, long> counters;            // integer coverage keys (states, transitions, evaluations, ...)
    std::map<std::string, double> reals;             // real-valued coverage keys (worst observed errors, ...)
    std::map<std::string, std::map<std::string, long>> tables;  // named histograms (per region, per op, ...)
    std::map<std::string, std::string> strings;
    std::vector<std::string> samples;                // each already JSON
    std::vector<std::string> assumptions;
    std::vector<Violation> violations;
    std::set<std::string> violation_keys;
    std::string internal_error;
    uint64_t digest = 0;      // order-independent digest of every observable result of the run (used by the C10 fill differential)
    // distinct non-trivial cases, measured: the harness names each case that is non-trivial by its rule with a canonical key (content of the case or its observable outcome); the driver unions the
    // hashed keys over all shards and variants and reports the size of the union as coverage.distinct_nontrivial
    std::unordered_set<uint64_t> distinct_keys;
    void distinct_case(const std::string& key) { uint64_t h = 1469598103934665603ull; for (unsigned char ch : key) { h ^= ch; h *= 1099511628211ull; } distinct_keys.insert(h); }
    void mix(const std::string& observable) { uint64_t h = 1469598103934665603ull; for (unsigned char ch : observable) { h ^= ch; h *= 1099511628211ull; } digest += h * 0x9e3779b97f4a7c15ull + 1; }
    bool exhaustive = true;
    std::vector<std::string> caps_hit;
    std::chrono::steady_clock::time_point t0 = std::chrono::steady_clock::now();
    int replay_counter = 0;

    double elapsed() const { return std::chrono::duration<double>(std::chrono::steady_clock::now() - t0).count(); }
    bool out_of_time(double frac = 1.0) const { return elapsed() > args.deadline * frac; }
    void cap(const std::string& what) { exhaustive = false; if (caps_hit.size() < 20) caps_hit.push_back(what); }
    void sample(const std::string& json, size_t max = 6) { if (samples.size() < max) samples.push_back(json); }
    long& operator[](const std::string& k) { return counters[k]; }

    // Record a violation.  `replay_body` is the harness-specific text that lets `--replay` re-execute exactly this case.
    // Only the first violation of each key writes a replay file.
    void violation(const std::string& key, const std::string& what, const std::string& replay_body) {
        if (violation_keys.count(key)) { counters["violations_total"]++; return; }
        violation_keys.insert(key);
        counters["violations_total"]++;
        std::string path = args.replaydir + "/" + property + "-" + std::to_string(getpid()) + "-" + std::to_string(replay_counter++) + ".replay";
        std::ofstream f(path);
        f << "variant=" << args.variant << "\n" << "tier=" << args.tier << "\n" << "property=" << property << "\n" << "key=" << key << "\n" << "what=" << what << "\n" << replay_body;
        f.close();
        violations.push_back({key, what, path});
    }

    std::string to_json() const {
        std::ostringstream o;
        o << "{\"coverage\":{";
        bool first = true;
        auto sep = [&]() { if (!first) o << ","; first = false; };
        for (auto& kv : counters) { sep(); o << jesc(kv.first) << ":" << kv.second; }
        for (auto& kv : reals) { sep(); o << jesc(kv.first) << ":" << jnum(kv.second); }
        for (auto& kv : strings) { sep(); o << jesc(kv.first) << ":" << jesc(kv.second); }
        for (auto& t : tables) {
            sep(); o << jesc(t.first) << ":{"; bool f2 = true;
            for (auto& kv : t.second) { if (!f2) o << ","; f2 = false; o << jesc(kv.first) << ":" << kv.second; }
            o << "}";
        }
        sep(); o << "\"samples\":["; for (size_t i = 0; i < samples.size(); i++) { if (i) o << ","; o << samples[i]; } o << "]";
        { char db[40]; snprintf(db, sizeof db, "%016llx", (unsigned long long)digest); sep(); o << "\"digest\":\"" << db << "\""; }
        sep(); o << "\"exhaustive\":" << (exhaustive ? "true" : "false");
        sep(); o << "\"caps_hit\":["; for (size_t i = 0; i < caps_hit.size(); i++) { if (i) o << ","; o << jesc(caps_hit[i]); } o << "]";
        o << "},\"assumptions\":[";
        for (size_t i = 0; i < assumptions.size(); i++) { if (i) o << ","; o << jesc(assumptions[i]); }
        o << "],\"violations\":[";
        for (size_t i = 0; i < violations.size(); i++) {
            if (i) o << ",";
            o << "{\"key\":" << jesc(violations[i].key) << ",\"what\":" << jesc(violations[i].what) << ",\"replay\":" << jesc(violations[i].replay) << "}";
        }
        o << "],\"internal_error\":" << (internal_error.empty() ? std::string("null") : jesc(internal_error)) << "}";
        return o.str();
    }
    void write() const {
        if (args.out.empty()) { std::cout << to_json() << std::endl; return; }
        if (!distinct_keys.empty()) { std::ofstream d(args.out + ".distinct", std::ios::binary); for (uint64_t h : distinct_keys) d.write(reinterpret_cast<const char*>(&h), sizeof h); }
        std::ofstream f(args.out + ".tmp"); f << to_json() << "\n"; f.close();
        rename((args.out + ".tmp").c_str(), args.out.c_str());
    }
};

// ---------------------------------------------------------------------------------------------- replay files
// key=value lines; values may contain anything but a newline
struct Replay {
    std::map<std::string, std::string> kv;
    std::vector<std::pair<std::string, std::string>> lines;
    bool load(const std::string& path) {
        std::ifstream f(path); if (!f) return false; std::string l;
        while (std::getline(f, l)) { auto p = l.find('='); if (p == std::string::npos) continue; kv[l.substr(0, p)] = l.substr(p + 1); lines.push_back({l.substr(0, p), l.substr(p + 1)}); }
        return true;
    }
    std::string get(const std::string& k, const std::string& d = "") const { auto it = kv.find(k); return it == kv.end() ? d : it->second; }
    long geti(const std::string& k, long d = 0) const { auto it = kv.find(k); return it == kv.end() ? d : atol(it->second.c_str()); }
    double getd(const std::string& k, double d = 0) const { auto it = kv.find(k); return it == kv.end() ? d : strtod(it->second.c_str(), nullptr); }
};
inline std::string dhex(double d) { char b[40]; snprintf(b, sizeof b, "%a", d); return b; }   // exact round trip through strtod

// ---------------------------------------------------------------------------------------------- fork isolation
// Runs fn in a forked child.  The child may write up to `cap` bytes into the shared buffer (its "answer").
// Returns: 0 = child exited 0; >0 = exit status; <0 = -signal; -1000 = timeout (child killed).
struct ForkOut { int status = 0; std::string data; double secs = 0; };
inline ForkOut run_forked(const std::function<void(char* buf, size_t cap)>& fn, double timeout_s = 20, size_t cap = 1 << 20) {
    ForkOut r;
    char* shm = (char*)mmap(nullptr, cap + 8, PROT_READ | PROT_WRITE, MAP_SHARED | MAP_ANONYMOUS, -1, 0);
    memset(shm, 0, 8);
    fflush(nullptr);
    auto t0 = std::chrono::steady_clock::now();
    pid_t pid = fork();
    if (pid == 0) {
        // child
        fn(shm + 8, cap);
        fflush(nullptr);
        _exit(0);
    }
    int st = 0; bool done = false;
    while (!done) {
        pid_t w = waitpid(pid, &st, WNOHANG);
        if (w == pid) { done = true; break; }
        double el = std::chrono::duration<double>(std::chrono::steady_clock::now() - t0).count();
        if (el > timeout_s) { kill(pid, SIGKILL); waitpid(pid, &st, 0); r.status = -1000; done = true; r.secs = el; r.data = std::string(shm + 8, strnlen(shm + 8, cap)); munmap(shm, cap + 8); return r; }
        usleep(el < 0.05 ? 200 : 2000);
    }
    r.secs = std::chrono::duration<double>(std::chrono::steady_clock::now() - t0).count();
    if (WIFEXITED(st)) r.status = WEXITSTATUS(st); else if (WIFSIGNALED(st)) r.status = -WTERMSIG(st);
    r.data = std::string(shm + 8, strnlen(shm + 8, cap));
    munmap(shm, cap + 8);
    return r;
}

// Main wrapper: the whole exploration runs in a forked child so that a crash of the code under test is observed and
// reported as a violation (with the last progress marker) instead of killing the reporter.
// progress marker: the replay body of the case about to be executed, kept in shared memory so that it survives a crash of the child
inline char*& progress_shm() { static char* p = nullptr; return p; }
static const size_t PROGRESS_CAP = 1 << 20;
inline std::string& progress_file() { static std::string f; return f; }
inline void progress(const std::string& replay_body) { char* p = progress_shm(); if (!p) return; size_t n = std::min(replay_body.size(), PROGRESS_CAP - 1); memcpy(p, replay_body.data(), n); p[n] = 0;
    // at most once a second the note also goes to <out>.progress, so that the driver can say WHERE a harness was when it had to be stopped
    static time_t last = 0; time_t now = time(nullptr); if (now != last && !progress_file().empty()) { last = now; FILE* f = fopen(progress_file().c_str(), "w"); if (f) { fwrite(replay_body.data(), 1, n, f); fclose(f); } } }

// optional: called in the reporting parent when the exploring child died, before the result is written (e.g. to collect sanitizer logs)
inline std::function<void(Result&)>& on_child_crash() { static std::function<void(Result&)> f; return f; }
inline int run_main(int argc, char** argv, const std::string& property, const std::function<void(Result&)>& explore,
                    const std::function<int(const Replay&, Result&)>& replay) {
    Args a = parse_args(argc, argv);
    Result R; R.property = property; R.args = a; if (!a.out.empty()) progress_file() = a.out + ".progress";
    if (!a.replay.empty()) {
        Replay rp; if (!rp.load(a.replay)) { fprintf(stderr, "cannot read replay file %s\n", a.replay.c_str()); return 2; }
        int rc = replay(rp, R);
        printf("replay %s: %s\n", a.replay.c_str(), rc ? "VIOLATION reproduced" : "no violation");
        for (auto& v : R.violations) printf("  key=%s\n  what=%s\n", v.key.c_str(), v.what.c_str());
        return rc ? 1 : 0;
    }
    progress_shm() = (char*)mmap(nullptr, PROGRESS_CAP, PROT_READ | PROT_WRITE, MAP_SHARED | MAP_ANONYMOUS, -1, 0); progress_shm()[0] = 0;
    fflush(nullptr);
    pid_t pid = fork();
    if (pid == 0) {
        try { explore(R); }
        catch (std::exception& e) { R.internal_error = std::string("uncaught exception in harness: ") + e.what(); }
        catch (...) { R.internal_error = "uncaught non-standard exception in harness"; }
        R.write();
        fflush(nullptr);
        _exit(0);
    }
    int st = 0; waitpid(pid, &st, 0);
    bool ok = WIFEXITED(st) && WEXITSTATUS(st) == 0 && access(a.out.c_str(), R_OK) == 0;
    if (!ok) {
        std::string last(progress_shm());
        std::string how = WIFSIGNALED(st) ? ("signal " + std::to_string(WTERMSIG(st))) : ("exit status " + std::to_string(WIFEXITED(st) ? WEXITSTATUS(st) : -1));
        R.counters["evaluations"] = 1; R.counters["states"] = 1; R.counters["transitions"] = 1; R.counters["distinct_nontrivial"] = 2;
        R.exhaustive = false; R.sample(jesc(last.substr(0, 300)));
        std::string one = last; for (char& ch : one) if (ch == '\n') ch = ' ';
        R.violation("crash:" + how, "the code under test terminated the exploration (" + how + ") while executing the case: " + one.substr(0, 400), last);
        if (on_child_crash()) on_child_crash()(R);
        R.write();
    }
    return 0;
}

} // namespace vf
