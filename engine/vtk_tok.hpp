#pragma once
// Independent tokenizer of the legacy VTK files the writer produces: validates every declared count against the contents.
#include "common.hpp"
namespace vtk {
struct Tok { std::vector<std::string> t; size_t i = 0; bool end() const { return i >= t.size(); } const std::string& peek() const { static std::string e; return end() ? e : t[i]; } std::string next() { return end() ? std::string() : t[i++]; } };
static bool is_int(const std::string& s) { if (s.empty()) return false; size_t k = (s[0] == '-' || s[0] == '+') ? 1 : 0; if (k == s.size()) return false; for (; k < s.size(); k++) if (!isdigit((unsigned char)s[k])) return false; return true; }
static bool is_num(const std::string& s) { if (s.empty()) return false; char* e; strtod(s.c_str(), &e); return *e == 0; }

struct Parsed { std::vector<double> pts; std::vector<std::vector<long>> cells; long ncelltypes = -1; std::map<std::string, std::vector<std::string>> fields; long celldata_n = -1; };

// independent tokenizer of the legacy VTK files the writer produces; returns "" or the first inconsistency
static std::string tokenize(const std::string& path, Parsed& P, bool expect_cell_data) {
    std::ifstream f(path); if (!f) return "file-not-written: " + path; std::string line; char buf[300];
    for (int k = 0; k < 4; k++) { if (!std::getline(f, line)) return "header-truncated"; if (k == 0 && line.rfind("# vtk DataFile Version", 0) != 0) return "bad-header: " + line; }
    Tok T; std::string w; while (f >> w) T.t.push_back(w);
    if (T.next() != "POINTS") return "POINTS-keyword-missing"; std::string n = T.next(); if (!is_int(n)) return "POINTS-count-not-an-integer: " + n; long np = atol(n.c_str()); T.next();
    for (long k = 0; k < 3 * np; k++) { std::string v = T.next(); if (!is_num(v)) { snprintf(buf, sizeof buf, "declared-point-count-exceeds-coordinates: POINTS %ld but token %ld is '%s'", np, k, v.c_str()); return buf; } P.pts.push_back(strtod(v.c_str(), 0)); }
    if (is_num(T.peek())) { snprintf(buf, sizeof buf, "more-coordinates-than-declared: POINTS %ld followed by extra number '%s'", np, T.peek().c_str()); return buf; }
    if (T.next() != "CELLS") return "CELLS-keyword-missing"; std::string a = T.next(), b = T.next(); if (!is_int(a) || !is_int(b)) return "CELLS-counts-not-integers"; long nc = atol(a.c_str()), nints = atol(b.c_str()); long used = 0;
    for (long c = 0; c < nc; c++) { std::string s = T.next(); if (!is_int(s)) { snprintf(buf, sizeof buf, "declared-cell-count-exceeds-records: CELLS %ld but record %ld starts with '%s'", nc, c, s.c_str()); return buf; } long len = atol(s.c_str()); used += 1 + len; std::vector<long> rec;
        for (long k = 0; k < len; k++) { std::string v = T.next(); if (!is_int(v)) { snprintf(buf, sizeof buf, "cell-record-shorter-than-declared: record %ld declares %ld integers, token %ld is '%s'", c, len, k, v.c_str()); return buf; } rec.push_back(atol(v.c_str())); } P.cells.push_back(rec); }
    if (used != nints) { snprintf(buf, sizeof buf, "declared-integer-count-differs-from-contents: CELLS declares %ld integers, records hold %ld", nints, used); return buf; }
    if (is_int(T.peek())) return "more-cell-integers-than-declared";
    if (T.next() != "CELL_TYPES") return "CELL_TYPES-keyword-missing"; std::string ct = T.next(); if (!is_int(ct)) return "CELL_TYPES-count-not-integer"; P.ncelltypes = atol(ct.c_str());
    for (long k = 0; k < P.ncelltypes; k++) { std::string v = T.next(); if (!is_int(v)) { snprintf(buf, sizeof buf, "declared-CELL_TYPES-count-exceeds-entries: %ld", P.ncelltypes); return buf; } }
    if (is_int(T.peek())) return "more-CELL_TYPES-entries-than-declared";
    if (P.ncelltypes != nc) { snprintf(buf, sizeof buf, "CELL_TYPES-count-differs-from-CELLS-count: %ld vs %ld", P.ncelltypes, nc); return buf; }
    if (!expect_cell_data) {   // face-data files: any sequence of attribute sections, every one of them checked against the count of the data set it belongs to
        long count = -1; std::string owner;
        while (!T.end()) { std::string kw = T.next();
            if (kw == "CELL_DATA" || kw == "POINT_DATA") { std::string n2 = T.next(); if (!is_int(n2)) return kw + "-count-not-integer"; count = atol(n2.c_str()); owner = kw; const long have = kw == "CELL_DATA" ? nc : np; if (count != have) { snprintf(buf, sizeof buf, "%s-count-differs-from-the-data-set: %ld declared, %ld present", kw.c_str(), count, have); return buf; } }
            else if (kw == "FIELD") { if (count < 0) return "FIELD-outside-an-attribute-section"; T.next(); std::string nf = T.next(); if (!is_int(nf)) return "FIELD-count-not-integer"; long nfields = atol(nf.c_str());
                for (long k = 0; k < nfields; k++) { std::string name = T.next(), comp = T.next(), len = T.next(), type = T.next(); if (!is_int(comp) || !is_int(len)) { snprintf(buf, sizeof buf, "declared-field-count-exceeds-fields: FIELD %ld but field %ld header is '%s %s %s'", nfields, k, name.c_str(), comp.c_str(), len.c_str()); return buf; }
                    if (atol(len.c_str()) != count) { snprintf(buf, sizeof buf, "field-length-differs-from-%s-count: %s declares %s for %ld", owner.c_str(), name.c_str(), len.c_str(), count); return buf; } long L = atol(comp.c_str()) * atol(len.c_str());
                    for (long j = 0; j < L; j++) { std::string v = T.next(); if (!is_num(v)) { snprintf(buf, sizeof buf, "field-shorter-than-declared: %s declares %ld values, token %ld is '%s'", name.c_str(), L, j, v.c_str()); return buf; } P.fields[name].push_back(v); }
                    if (is_num(T.peek())) { snprintf(buf, sizeof buf, "field-longer-than-declared: %s declares %ld values and is followed by the number '%s'", name.c_str(), L, T.peek().c_str()); return buf; } } }
            else if (kw == "VECTORS" || kw == "NORMALS") { if (count < 0) return kw + "-outside-an-attribute-section"; std::string name = T.next(); T.next(); for (long j = 0; j < 3 * count; j++) { std::string v = T.next(); if (!is_num(v)) { snprintf(buf, sizeof buf, "vector-array-shorter-than-its-section: %s in %s %ld, token %ld is '%s'", name.c_str(), owner.c_str(), count, j, v.c_str()); return buf; } }
                if (is_num(T.peek())) { snprintf(buf, sizeof buf, "vector-array-longer-than-its-section: %s holds more than 3 x %ld numbers (%s %ld)", name.c_str(), count, owner.c_str(), count); return buf; } }
            else return "unexpected-content-after-the-geometry: " + kw; }
        return ""; }
    if (T.next() != "CELL_DATA") return "CELL_DATA-keyword-missing"; std::string cd = T.next(); if (!is_int(cd)) return "CELL_DATA-count-not-integer"; P.celldata_n = atol(cd.c_str());
    if (P.celldata_n != nc) { snprintf(buf, sizeof buf, "CELL_DATA-count-differs-from-CELLS-count: %ld vs %ld", P.celldata_n, nc); return buf; }
    if (T.next() != "FIELD") return "FIELD-keyword-missing"; T.next(); std::string nf = T.next(); if (!is_int(nf)) return "FIELD-count-not-integer"; long nfields = atol(nf.c_str());
    for (long k = 0; k < nfields; k++) { std::string name = T.next(), comp = T.next(), len = T.next(), type = T.next(); if (!is_int(comp) || !is_int(len)) { snprintf(buf, sizeof buf, "declared-field-count-exceeds-fields: FIELD %ld but field %ld header is '%s %s %s %s'", nfields, k, name.c_str(), comp.c_str(), len.c_str(), type.c_str()); return buf; }
        long L = atol(comp.c_str()) * atol(len.c_str()); if (atol(len.c_str()) != nc) { snprintf(buf, sizeof buf, "field-length-differs-from-cell-count: %s declares %s for %ld cells", name.c_str(), len.c_str(), nc); return buf; }
        for (long j = 0; j < L; j++) { std::string v = T.next(); if (!is_num(v)) { snprintf(buf, sizeof buf, "field-shorter-than-declared: %s declares %ld values, token %ld is '%s'", name.c_str(), L, j, v.c_str()); return buf; } P.fields[name].push_back(v); } if (is_num(T.peek())) { snprintf(buf, sizeof buf, "field-longer-than-declared: %s", name.c_str()); return buf; } }
    if (!T.end()) return "unexpected-trailing-content: " + T.peek();
    return "";
}

} // namespace vtk
