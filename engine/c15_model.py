"""C15, protocol model cross-check (models/peh.pml, Spin): for every explored configuration of the exception-propagation sub-check the set of
outcomes the explorer observed on the REAL parallel_exception_handler must equal the set of final states Spin finds reachable in the Promela model of
the protocol (static schedule, store under critical, rethrow after the join).  An outcome of the code that the model does not have is a violation (the
code does something the protocol does not allow); an outcome of the model that the explorer never produced means the preemption bound was too small
for this configuration (reported as an internal error: the exploration is not what it claims to be)."""
import os, re, subprocess, shutil, tempfile

VERIF = os.path.dirname(os.path.dirname(os.path.abspath(__file__)))


def reachable_finals(n, team, mask, workdir):
    """values of eptr reachable at the end of the region, by one Spin run per candidate value"""
    out = set(); states = 0
    cands = [i for i in range(n) if mask >> i & 1] + [255]
    for v in cands:
        d = os.path.join(workdir, 'n%d_t%d_m%d_v%d' % (n, team, mask, v)); os.makedirs(d, exist_ok=True)
        defs = ['-DN=%d' % n, '-DT=%d' % team, '-DMASK=%d' % mask, '-DV=%d' % v]
        r = subprocess.run(['spin', '-a'] + defs + [os.path.join(VERIF, 'models', 'peh.pml')], cwd=d, stdout=subprocess.PIPE, stderr=subprocess.STDOUT, text=True)
        if r.returncode != 0 or not os.path.exists(os.path.join(d, 'pan.c')):
            raise RuntimeError('spin -a failed: ' + r.stdout[-500:])
        r = subprocess.run(['gcc', '-O1', '-DSAFETY', '-DMEMLIM=512', '-w', '-o', 'pan', 'pan.c'], cwd=d, stdout=subprocess.PIPE, stderr=subprocess.STDOUT, text=True)
        if r.returncode != 0:
            raise RuntimeError('gcc pan.c failed: ' + r.stdout[-500:])
        r = subprocess.run(['./pan', '-m100000'], cwd=d, stdout=subprocess.PIPE, stderr=subprocess.STDOUT, text=True, timeout=300)
        txt = r.stdout
        m = re.search(r'(\d+) states, stored', txt); states += int(m.group(1)) if m else 0
        if 'assertion violated' in txt:
            # which assertion?  only the reachability query may fail
            if ('assertionviolated(eptr!=%d)' % v) in txt.replace(' ', ''):
                out.add(v)
            else:
                raise RuntimeError('the protocol model violates its own invariant: ' + txt[:600])
        elif 'errors: 0' not in txt:
            raise RuntimeError('unexpected pan output: ' + txt[:600])
    return out, states


def run(coverage, tier):
    """coverage: merged coverage of the harness (needs the table peh_outcomes: '<n> <mask> <T> => <outcome head>' -> count)"""
    obs = {}
    for key in coverage.get('peh_outcomes', {}):
        m = re.match(r'(\d+) (\d+) (\d+) => (.*)', key)
        if not m:
            continue
        n, mask, team, head = int(m.group(1)), int(m.group(2)), int(m.group(3)), m.group(4)
        v = 255 if head == 'returned' else (int(re.match(r'my_error:item (\d+) failed', head).group(1)) if re.match(r'my_error:item (\d+) failed', head) else -1)
        obs.setdefault((n, mask, team), set()).add(v)
    violations, internal, info = [], [], {}
    if not obs:
        return {}, [], ['no exception-propagation outcomes were exported by the harness']
    if not shutil.which('spin'):
        return {}, [], ['spin is not on PATH']
    work = tempfile.mkdtemp(prefix='c15model-', dir=os.path.join(VERIF, 'build', 'run'))
    total_states = 0; compared = 0
    try:
        for (n, mask, team), seen in sorted(obs.items()):
            if team < 2:
                continue
            if tier == 'quick' and not (n == 3 or (n == 2 and team == 2)):
                continue
            model, st = reachable_finals(n, team, mask, work); total_states += st; compared += 1
            name = 'items=%d failing=%d team=%d' % (n, mask, team)
            info[name] = 'code {%s} model {%s}' % (','.join(map(str, sorted(seen))), ','.join(map(str, sorted(model))))
            if seen - model:
                violations.append({'key': 'outcome-outside-the-protocol-model|peh', 'what': 'parallel_exception_handler, %s: the real code ends with pending exception %s, which the Promela model of the protocol (models/peh.pml) cannot reach (model: %s)' % (name, sorted(seen - model), sorted(model)), 'replay': os.path.join(VERIF, 'models', 'peh.pml')})
            if model - seen:
                internal.append('C15 model cross-check, %s: the model reaches %s but no explored schedule of the real code did (preemption bound too small or scheduling points missing)' % (name, sorted(model - seen)))
    except Exception as e:
        internal.append('C15 model cross-check failed: %s' % e)
    finally:
        shutil.rmtree(work, ignore_errors=True)
    return {'model_crosscheck_configurations': compared, 'model_states_explored_by_spin': total_states, 'model_crosscheck': info}, violations, internal
