// Weak default definitions of the repository's verification hooks (include/verif_hooks.hpp).  A harness overrides
// the ones it needs by defining them (strong symbol wins).
#include "vomp/vomp.hpp"
#include <mutex>
#include <map>
#include <string>
namespace simucell3d_verif {
unsigned long g_base_seed = 12345;
static std::mutex g_mu;
static std::map<std::pair<std::string, unsigned long>, unsigned long>* g_count = nullptr;
// the cell the calling thread is working on (entered by the guarded cell_scope in divide_cell); 0 = none
static thread_local unsigned long tl_scope = 0;
__attribute__((weak)) unsigned long scope_enter(unsigned long cell_id) { unsigned long prev = tl_scope; tl_scope = cell_id + 1; return prev; }
__attribute__((weak)) void scope_leave(unsigned long prev) { tl_scope = prev; }
void reset_rng_counters() { std::lock_guard<std::mutex> l(g_mu); if (g_count) g_count->clear(); }
static unsigned long mix(unsigned long x) { x ^= x >> 33; x *= 0xff51afd7ed558ccdul; x ^= x >> 33; x *= 0xc4ceb9fe1a85ec53ul; x ^= x >> 33; return x; }
// seed = f(base seed, call site, data-derived key, how many times this (site,key) asked before): independent of
// the thread schedule, different on every retry of the same computation.
__attribute__((weak)) unsigned long rng_seed(const char* site, unsigned long key) {
    std::lock_guard<std::mutex> l(g_mu);
    if (!g_count) g_count = new std::map<std::pair<std::string, unsigned long>, unsigned long>();
    key = key * 0x9e3779b97f4a7c15ul + tl_scope;           // inside a cell scope the seed is a function of that cell, not of the schedule
    unsigned long n = (*g_count)[{site, key}]++;
    unsigned long h = g_base_seed;
    for (const char* s = site; *s; ++s) h = h * 131 + (unsigned char)*s;
    unsigned long r = mix(mix(h) ^ mix(key + 0x9e3779b97f4a7c15ul) ^ mix(n * 0x632be59bd9b4e019ul + 7));
    r %= 2147483646ul; return r + 1;   // minstd_rand wants a seed in [1, m-1]
}
__attribute__((weak)) void sched_point(const char* site) { vomp::sched_point(site); }
__attribute__((weak)) void contact_candidate(const void*, const void*, const void*) {}
__attribute__((weak)) void refine_op(int, void*, unsigned, unsigned, int) {}
__attribute__((weak)) void solver_phase(void*, const char*) {}
}
