// lset: a lockset race detector behind the ThreadSanitizer instrumentation interface (DESIGN.md 7, "vomp").
//
// The harness and the repository are compiled with -fsanitize=thread, but linked WITHOUT libtsan: this file defines the __tsan_* entry points the
// compiler calls at every memory access, and decides races its own way.  Why: ThreadSanitizer is a happens-before detector, and under a serialising
// scheduler every incidental synchronisation of the program (the acq_rel reference counts of the shared_ptr copies made in the contact loops, for one)
// orders ALL earlier accesses of one thread before ALL later accesses of the next, so a plain store racing with an atomic update of the same node is
// never reported, in any explored schedule.  The question the property asks does not depend on the schedule: do two threads of one team touch the same
// bytes between two team-wide synchronisations (region start, barrier, region end), at least one of them writing, not both atomically, with no lock in common?
//
//   * active only inside an explore-mode team region of vomp (one thread runs at a time: no locking needed here);
//   * per 8-byte granule up to four access records (thread, byte mask, write?, atomic?, lockset, pc); generation counter = epoch between team-wide
//     synchronisations; memory handed back to the allocator forgets its records (operator delete is defined here);
//   * accesses to the running thread's own stack are skipped; the explorer's state-hash observations are bracketed by lset ignore calls from vomp.
//
// This TU is compiled WITHOUT -fsanitize=thread.
#include "vomp.hpp"
#include <pthread.h>
#include <malloc.h>
#include <dlfcn.h>
#include <cstdint>
#include <cstdio>
#include <cstdlib>
#include <cstring>
#include <new>
#include <string>
#include <vector>
#include <algorithm>

namespace vomp { namespace lset {

static bool g_active = false; static int g_ignore = 0; static int g_team = 0;
static const int MAXT = 8;
struct StackRange { uintptr_t lo = 0, hi = 0; }; static StackRange g_stack[MAXT];
static std::vector<const void*> g_held[MAXT];                       // locks held by each team thread, in acquisition order
static uint32_t g_gen = 1;                                          // epoch between team-wide synchronisations

struct Rec { uint8_t tid, mask, kind; uint8_t nlocks; const void* locks[3]; const void* pc; };   // kind bit0 = write, bit1 = atomic
struct Entry { uintptr_t granule; uint32_t gen; uint8_t n; Rec r[4]; };
static const size_t TABLE = 1u << 21; static Entry* g_table = nullptr;
static long g_dropped = 0, g_accesses = 0;

struct Race { const void* pc1; const void* pc2; uint8_t k1, k2; uintptr_t addr; };
static Race g_races[64]; static int g_nraces = 0;
// optional watch list: when not empty, only conflicts on these bytes are reported (the others are counted)
static std::vector<std::pair<uintptr_t, uintptr_t>> g_watch; static bool g_watch_sorted = true; static long g_unwatched_conflicts = 0;
static bool watched(uintptr_t a) { if (g_watch.empty()) return true; if (!g_watch_sorted) { std::sort(g_watch.begin(), g_watch.end()); g_watch_sorted = true; } auto it = std::upper_bound(g_watch.begin(), g_watch.end(), std::make_pair(a, ~(uintptr_t)0)); if (it == g_watch.begin()) return false; --it; return a >= it->first && a < it->second; }

static Entry* slot(uintptr_t granule, bool create) {
    if (!g_table) { g_table = (Entry*)calloc(TABLE, sizeof(Entry)); if (!g_table) abort(); }
    size_t h = (granule * 0x9e3779b97f4a7c15ull) >> (64 - 21);
    for (size_t probe = 0; probe < 64; probe++) { Entry& e = g_table[(h + probe) & (TABLE - 1)];
        if (e.gen == g_gen && e.granule == granule) return &e;
        if (e.gen != g_gen) { if (!create) return nullptr; e.granule = granule; e.gen = g_gen; e.n = 0; return &e; } }
    g_dropped++; return nullptr;
}
static bool common_lock(const Rec& a, const std::vector<const void*>& held) { for (int i = 0; i < a.nlocks; i++) for (const void* l : held) if (l == a.locks[i]) return true; return false; }

static void access(uintptr_t addr, unsigned size, uint8_t kind, const void* pc) {
    if (!g_active || g_ignore) return;
    const int t = vomp::running_tid(); if (t < 0 || t >= g_team) return;
    if (addr >= g_stack[t].lo && addr < g_stack[t].hi) return;
    g_accesses++;
    while (size) { const uintptr_t granule = addr >> 3; const unsigned off = addr & 7, n = std::min<unsigned>(size, 8 - off); const uint8_t mask = (uint8_t)(((1u << n) - 1) << off);
        Entry* e = slot(granule, true);
        if (e) { Rec* mine = nullptr;
            for (int i = 0; i < e->n; i++) { Rec& r = e->r[i];
                if (r.tid == t) { if (r.kind == kind) mine = &r; continue; }
                if (!(r.mask & mask)) continue;
                if (!((r.kind | kind) & 1)) continue;                    // two reads
                if ((r.kind & 2) && (kind & 2)) continue;                // both atomic
                if (common_lock(r, g_held[t])) continue;
                if (!watched(addr)) { g_unwatched_conflicts++; continue; }
                bool seen = false; for (int k = 0; k < g_nraces; k++) if ((g_races[k].pc1 == r.pc && g_races[k].pc2 == pc) || (g_races[k].pc1 == pc && g_races[k].pc2 == r.pc)) seen = true;
                if (!seen && g_nraces < 64) g_races[g_nraces++] = {r.pc, pc, r.kind, kind, addr}; }
            if (mine) { mine->mask |= mask; /* lockset: keep only the locks still held */ int w = 0; for (int i = 0; i < mine->nlocks; i++) { bool still = false; for (const void* l : g_held[t]) if (l == mine->locks[i]) still = true; if (still) mine->locks[w++] = mine->locks[i]; } mine->nlocks = (uint8_t)w; }
            else if (e->n < 4) { Rec& r = e->r[e->n++]; r.tid = (uint8_t)t; r.mask = mask; r.kind = kind; r.pc = pc; r.nlocks = 0; for (const void* l : g_held[t]) if (r.nlocks < 3) r.locks[r.nlocks++] = l; }
            else g_dropped++; }
        addr += n; size -= n; }
}
static void forget(void* p) { if (!g_table || !p) return; size_t sz = malloc_usable_size(p); if (!g_active) return; if (sz > (1u << 22)) { g_gen++; return; } for (uintptr_t g = (uintptr_t)p >> 3; g <= ((uintptr_t)p + sz - 1) >> 3; g++) { Entry* e = slot(g, false); if (e) e->gen = 0; } }

// ---- called by vomp
void region_begin(int team) { g_team = team > MAXT ? MAXT : team; g_gen++; for (int t = 0; t < MAXT; t++) g_held[t].clear(); g_active = true; }
void region_end() { g_active = false; g_gen++; }
void epoch() { g_gen++; }
void thread_begin(int tid) { if (tid < 0 || tid >= MAXT) return; pthread_attr_t a; if (pthread_getattr_np(pthread_self(), &a) == 0) { void* lo; size_t sz; pthread_attr_getstack(&a, &lo, &sz); g_stack[tid].lo = (uintptr_t)lo; g_stack[tid].hi = (uintptr_t)lo + sz; pthread_attr_destroy(&a); } }
void lock(int tid, const void* l) { if (tid >= 0 && tid < MAXT) g_held[tid].push_back(l); }
void unlock(int tid, const void* l) { if (tid < 0 || tid >= MAXT) return; auto& h = g_held[tid]; for (size_t i = h.size(); i-- > 0;) if (h[i] == l) { h.erase(h.begin() + (long)i); break; } }
void ignore(int d) { g_ignore += d; }

// ---- called by the harness
static std::string symbol(const void* pc) {
    Dl_info di; char cmd[600], line[600]; std::string out;
    if (dladdr(pc, &di) && di.dli_fname) { uintptr_t off = (uintptr_t)pc - (uintptr_t)di.dli_fbase - 1; snprintf(cmd, sizeof cmd, "addr2line -f -C -s -e '%s' 0x%lx 2>/dev/null", di.dli_fname, (unsigned long)off);
        if (FILE* f = popen(cmd, "r")) { std::string fn, loc; if (fgets(line, sizeof line, f)) fn = line; if (fgets(line, sizeof line, f)) loc = line; pclose(f); while (!fn.empty() && (fn.back() == '\n')) fn.pop_back(); while (!loc.empty() && (loc.back() == '\n')) loc.pop_back();
            size_t par = fn.find('('); if (par != std::string::npos) fn = fn.substr(0, par); size_t disc = loc.find(" (discriminator"); if (disc != std::string::npos) loc = loc.substr(0, disc); out = fn + "@" + loc; } }
    if (out.empty()) { snprintf(line, sizeof line, "%p", pc); out = line; } return out;
}
}  // namespace lset

int lset_drain(char* buf, int cap) {      // newline-separated "kind1 site1 <-> kind2 site2"; returns the number of races of the last execution(s) and clears them
    using namespace lset; std::string all; static const char* KN[4] = {"read", "write", "atomic read", "atomic write"};
    for (int i = 0; i < g_nraces; i++) { std::string a = std::string(KN[g_races[i].k1 & 3]) + " in " + symbol(g_races[i].pc1), b = std::string(KN[g_races[i].k2 & 3]) + " in " + symbol(g_races[i].pc2); if (b < a) std::swap(a, b); all += a + " <-> " + b + "\n"; }
    int n = g_nraces; g_nraces = 0; if (buf && cap > 0) { snprintf(buf, (size_t)cap, "%s", all.c_str()); } return n;
}
void lset_watch(const void* p, unsigned long n) { if (!p) { lset::g_watch.clear(); return; } lset::g_watch.push_back({(uintptr_t)p, (uintptr_t)p + n}); lset::g_watch_sorted = false; }
long lset_unwatched_conflicts() { long v = lset::g_unwatched_conflicts; lset::g_unwatched_conflicts = 0; return v; }
long lset_accesses() { return lset::g_accesses; }
long lset_dropped() { return lset::g_dropped; }
bool lset_linked() { return true; }
}  // namespace vomp

using vomp::lset::access;
#define PC __builtin_return_address(0)
extern "C" {
void __tsan_init() {}
void __tsan_func_entry(void*) {}
void __tsan_func_exit() {}
void __tsan_vptr_update(void** vptr, void* val) { if (*vptr != val) access((uintptr_t)vptr, 8, 1, PC); }
void __tsan_vptr_read(void** vptr) { access((uintptr_t)vptr, 8, 0, PC); }
#define RW(N) void __tsan_read##N(void* a) { access((uintptr_t)a, N, 0, PC); } void __tsan_write##N(void* a) { access((uintptr_t)a, N, 1, PC); } \
              void __tsan_unaligned_read##N(void* a) { access((uintptr_t)a, N, 0, PC); } void __tsan_unaligned_write##N(void* a) { access((uintptr_t)a, N, 1, PC); } \
              void __tsan_volatile_read##N(void* a) { access((uintptr_t)a, N, 0, PC); } void __tsan_volatile_write##N(void* a) { access((uintptr_t)a, N, 1, PC); }
RW(1) RW(2) RW(4) RW(8) RW(16)
void __tsan_read_range(void* a, unsigned long n) { access((uintptr_t)a, (unsigned)n, 0, PC); }
void __tsan_write_range(void* a, unsigned long n) { access((uintptr_t)a, (unsigned)n, 1, PC); }
void __tsan_atomic_thread_fence(int mo) { __atomic_thread_fence(__ATOMIC_SEQ_CST); (void)mo; }
void __tsan_atomic_signal_fence(int mo) { __atomic_signal_fence(__ATOMIC_SEQ_CST); (void)mo; }
#define ATOMICS(BITS, T) \
T __tsan_atomic##BITS##_load(const volatile T* a, int) { access((uintptr_t)a, BITS / 8, 2, PC); return __atomic_load_n(a, __ATOMIC_SEQ_CST); } \
void __tsan_atomic##BITS##_store(volatile T* a, T v, int) { access((uintptr_t)a, BITS / 8, 3, PC); __atomic_store_n(a, v, __ATOMIC_SEQ_CST); } \
T __tsan_atomic##BITS##_exchange(volatile T* a, T v, int) { access((uintptr_t)a, BITS / 8, 3, PC); return __atomic_exchange_n(a, v, __ATOMIC_SEQ_CST); } \
T __tsan_atomic##BITS##_fetch_add(volatile T* a, T v, int) { access((uintptr_t)a, BITS / 8, 3, PC); return __atomic_fetch_add(a, v, __ATOMIC_SEQ_CST); } \
T __tsan_atomic##BITS##_fetch_sub(volatile T* a, T v, int) { access((uintptr_t)a, BITS / 8, 3, PC); return __atomic_fetch_sub(a, v, __ATOMIC_SEQ_CST); } \
T __tsan_atomic##BITS##_fetch_and(volatile T* a, T v, int) { access((uintptr_t)a, BITS / 8, 3, PC); return __atomic_fetch_and(a, v, __ATOMIC_SEQ_CST); } \
T __tsan_atomic##BITS##_fetch_or(volatile T* a, T v, int) { access((uintptr_t)a, BITS / 8, 3, PC); return __atomic_fetch_or(a, v, __ATOMIC_SEQ_CST); } \
T __tsan_atomic##BITS##_fetch_xor(volatile T* a, T v, int) { access((uintptr_t)a, BITS / 8, 3, PC); return __atomic_fetch_xor(a, v, __ATOMIC_SEQ_CST); } \
T __tsan_atomic##BITS##_fetch_nand(volatile T* a, T v, int) { access((uintptr_t)a, BITS / 8, 3, PC); return __atomic_fetch_nand(a, v, __ATOMIC_SEQ_CST); } \
int __tsan_atomic##BITS##_compare_exchange_strong(volatile T* a, T* c, T v, int, int) { access((uintptr_t)a, BITS / 8, 3, PC); return __atomic_compare_exchange_n(a, c, v, false, __ATOMIC_SEQ_CST, __ATOMIC_SEQ_CST); } \
int __tsan_atomic##BITS##_compare_exchange_weak(volatile T* a, T* c, T v, int, int) { access((uintptr_t)a, BITS / 8, 3, PC); return __atomic_compare_exchange_n(a, c, v, false, __ATOMIC_SEQ_CST, __ATOMIC_SEQ_CST); } \
T __tsan_atomic##BITS##_compare_exchange_val(volatile T* a, T c, T v, int, int) { access((uintptr_t)a, BITS / 8, 3, PC); __atomic_compare_exchange_n(a, &c, v, false, __ATOMIC_SEQ_CST, __ATOMIC_SEQ_CST); return c; }
ATOMICS(8, unsigned char) ATOMICS(16, unsigned short) ATOMICS(32, unsigned int) ATOMICS(64, unsigned long)
}  // extern "C"

// memory handed back to the allocator forgets its access records (the next owner is not racing with the previous one)
void* operator new(std::size_t n) { void* p = malloc(n ? n : 1); if (!p) throw std::bad_alloc(); return p; }
void* operator new[](std::size_t n) { void* p = malloc(n ? n : 1); if (!p) throw std::bad_alloc(); return p; }
void* operator new(std::size_t n, const std::nothrow_t&) noexcept { return malloc(n ? n : 1); }
void* operator new[](std::size_t n, const std::nothrow_t&) noexcept { return malloc(n ? n : 1); }
void operator delete(void* p) noexcept { vomp::lset::forget(p); free(p); }
void operator delete[](void* p) noexcept { vomp::lset::forget(p); free(p); }
void operator delete(void* p, std::size_t) noexcept { vomp::lset::forget(p); free(p); }
void operator delete[](void* p, std::size_t) noexcept { vomp::lset::forget(p); free(p); }
void operator delete(void* p, const std::nothrow_t&) noexcept { vomp::lset::forget(p); free(p); }
void operator delete[](void* p, const std::nothrow_t&) noexcept { vomp::lset::forget(p); free(p); }
