#pragma once
// Preemption-bounded stateless exploration of thread schedules on top of vomp (DESIGN.md 2.6).
//
//   explore(prefix):  run the scenario with the recorded choices of `prefix`, then choice 0 (canonical order: the running thread if it is
//   still enabled, then ascending ids) at every later point; judge the execution; for every later point and every alternative choice whose
//   cost (preemptions so far, +1 if the running thread was still enabled) stays within the bound, recurse.
//
// Pruning: a (state key, alternative) pair that has already been expanded with at least as much remaining preemption budget is skipped.  The
// state key (computed by vomp at every point) covers the harness-supplied hash of the shared state, the lock owners and, per thread, its
// status, site label, step count and VIEW hash (running hash of the shared-state hashes at its own resumption points); since only the baton
// holder changes shared state, equal keys imply equal thread-local states and therefore equal futures.
#include "vomp.hpp"
#include <vector>
#include <string>
#include <map>
#include <set>
#include <functional>
#include <unordered_map>
#include <chrono>

namespace vomp {

struct Execution { std::vector<Point> points; std::string outcome; std::string races;   /* lockset detector reports of this execution, one per line (lset builds only) */ bool deadlock = false, diverged = false, overflow = false, horizon = false; std::vector<int> choices() const { std::vector<int> c; for (auto& p : points) c.push_back(p.choice); return c; } };

struct Explorer {
    int team = 2, bound = 2; long max_executions = 2000000; double deadline_s = 1e9;
    std::function<std::string()> scenario;                       // builds fresh state, runs the parallel code, returns the observable outcome
    std::function<void(const Execution&)> judge;                 // oracle for one complete execution
    long executions = 0, points = 0, pruned = 0, max_points = 0, with_switch = 0 /* executions in which at least one scheduling decision departs from 'keep running the current thread' */; bool capped = false; std::set<std::string> outcomes; std::vector<std::vector<int>> sample_schedules;
    std::unordered_map<unsigned long, int> expanded;              // (state key, alternative) -> largest remaining budget it was expanded with
    std::chrono::steady_clock::time_point t0 = std::chrono::steady_clock::now();

    Execution run(const std::vector<int>& prefix) {
        set_mode(MODE_EXPLORE, team); set_prefix(prefix.data(), (int)prefix.size()); begin_execution();
        Execution x; x.outcome = scenario();
        if (lset_drain) { static char buf[16384]; buf[0] = 0; if (lset_drain(buf, sizeof buf) > 0) x.races = buf; }
        const Trace& t = trace(); x.points.assign(t.p, t.p + t.n); x.deadlock = deadlocked(); x.diverged = diverged(); x.overflow = t.overflow; x.horizon = t.horizon_hit;
        set_mode(MODE_SERIAL, 1); set_prefix(nullptr, 0);
        executions++; points += t.n; for (int i = 0; i < t.n; i++) if (t.p[i].choice != 0) { with_switch++; break; } max_points = std::max<long>(max_points, t.n); outcomes.insert(x.outcome);
        return x;
    }
    static std::string schedule_text(const std::vector<int>& c) { std::string s; for (int v : c) s += char('0' + v); return s; }
    static std::vector<int> schedule_parse(const std::string& s) { std::vector<int> c; for (char ch : s) if (ch >= '0' && ch <= '9') c.push_back(ch - '0'); return c; }

    void explore(const std::vector<int>& prefix) {
        if (capped) return;
        if (executions >= max_executions || std::chrono::duration<double>(std::chrono::steady_clock::now() - t0).count() > deadline_s) { capped = true; return; }
        Execution x = run(prefix);
        if (sample_schedules.size() < 4) sample_schedules.push_back(x.choices());
        if (judge) judge(x);
        // preemptions used before each point
        std::vector<int> used(x.points.size() + 1, 0); for (size_t i = 0; i < x.points.size(); i++) used[i + 1] = used[i] + ((x.points[i].choice != 0 && x.points[i].running_enabled) ? 1 : 0);
        for (size_t i = prefix.size(); i < x.points.size(); i++) { const Point& p = x.points[i];
            for (int alt = 1; alt < p.n_enabled; alt++) { int cost = used[i] + (p.running_enabled ? 1 : 0); if (cost > bound) continue; int remaining = bound - cost;
                unsigned long k = p.state_key * 1099511628211ul + (unsigned long)alt * 0x9e3779b97f4a7c15ul; auto it = expanded.find(k);
                if (it != expanded.end() && it->second >= remaining) { pruned++; continue; } expanded[k] = remaining;
                std::vector<int> next; next.reserve(i + 1); for (size_t j = 0; j < i; j++) next.push_back(x.points[j].choice); next.push_back(alt);
                explore(next); if (capped) return; } }
    }
};
} // namespace vomp
