#pragma once
// Preemption-bounded stateless exploration of thread schedules on top of vomp (DESIGN.md 2.6).
//
//   explore(prefix):  run the scenario with the recorded choices of `prefix`, then choice 0 (canonical order: the running thread if it is
//   still enabled, then ascending ids) at every later point; judge the execution; for every later point and every alternative choice whose
//   cost (preemptions so far, +1 if the running thread was still enabled) stays within the bound, recurse.
//
// Pruning: a (state key, alternative) pair that has already been expanded with at least as much remaining preemption budget is skipped.  The
// state key (computed by vomp at every point) covers the harness-supplied hash of the shared state, the lock owners and, per thread, its
// status, site label, step count and VIEW hash (running hash of the shared-state hashes at its own resumption points); since only the baton
// holder changes shared state, equal keys imply equal thread-local states and therefore equal futures.
#include "vomp.hpp"
#include <vector>
#include <string>
#include <map>
#include <set>
#include <functional>
#include <unordered_map>
#include <chrono>
#include <cstring>
#include <cerrno>
#include <unistd.h>
#include <sys/wait.h>

namespace vomp {

struct Execution { std::vector<Point> points; std::string outcome; std::string races;   /* lockset detector reports of this execution, one per line (lset builds only) */ bool deadlock = false, diverged = false, overflow = false, horizon = false; int crashed = 0;   /* isolated executions: signal (or 1000 + exit status) that ended the child before it reported */ std::vector<int> choices() const { std::vector<int> c; for (auto& p : points) c.push_back(p.choice); return c; } };

struct Explorer {
    int team = 2, bound = 2; long max_executions = 2000000; double deadline_s = 1e9;
    std::function<std::string()> scenario;                       // builds fresh state, runs the parallel code, returns the observable outcome
    std::function<void(const Execution&)> judge;                 // oracle for one complete execution
    long executions = 0, points = 0, pruned = 0, max_points = 0, with_switch = 0 /* executions in which at least one scheduling decision departs from 'keep running the current thread' */; bool capped = false; std::set<std::string> outcomes; std::vector<std::vector<int>> sample_schedules;
    std::unordered_map<unsigned long, int> expanded;              // (state key, alternative) -> largest remaining budget it was expanded with
    std::chrono::steady_clock::time_point t0 = std::chrono::steady_clock::now();

    // Isolated executions: every execution runs in a forked child (the team threads only live inside a parallel region, so the process is single-threaded when it forks), and reports its
    // trace through a pipe.  Process-wide state the scenario cannot reset (function-local statics, lazily built caches) is then as fresh in every execution as in a new process, so a result
    // that depends on which thread initialises it first shows up as a schedule-dependent outcome; a crash (std::terminate from a noexcept function, a sanitizer abort) ends one execution, not the search.
    bool isolate = false; long crashes = 0;
    Execution run(const std::vector<int>& prefix) {
        if (!isolate) return run_here(prefix);
        int fd[2]; if (pipe(fd) != 0) { Execution x; x.outcome = "INTERNAL pipe failed"; x.diverged = true; return x; }
        fflush(nullptr); pid_t pid = fork();
        if (pid == 0) { close(fd[0]); Execution x = run_here(prefix); std::string buf; auto put = [&](const void* p, size_t n) { buf.append((const char*)p, n); }; unsigned long n = x.points.size(); put(&n, sizeof n); if (n) put(x.points.data(), n * sizeof(Point));
            for (const std::string* str : {&x.outcome, &x.races}) { unsigned long l = str->size(); put(&l, sizeof l); put(str->data(), l); } char fl[4] = {(char)x.deadlock, (char)x.diverged, (char)x.overflow, (char)x.horizon}; put(fl, 4); unsigned long magic = 0x76657269664f4b21ul; put(&magic, sizeof magic);
            for (size_t off = 0; off < buf.size();) { ssize_t w = write(fd[1], buf.data() + off, buf.size() - off); if (w <= 0) _exit(3); off += (size_t)w; } close(fd[1]); _exit(0); }
        close(fd[1]); std::string buf; char tmp[65536]; for (;;) { ssize_t r = read(fd[0], tmp, sizeof tmp); if (r > 0) buf.append(tmp, (size_t)r); else if (r == 0) break; else if (errno != EINTR) break; } close(fd[0]);
        int status = 0; while (waitpid(pid, &status, 0) < 0 && errno == EINTR) {}
        Execution x; size_t off = 0; auto get = [&](void* p, size_t n) { if (off + n > buf.size()) return false; memcpy(p, buf.data() + off, n); off += n; return true; };
        bool ok = false; unsigned long n = 0;
        if (get(&n, sizeof n) && n <= (unsigned long)Trace::MAXP) { x.points.resize(n); if (!n || get(x.points.data(), n * sizeof(Point))) { bool good = true; for (std::string* str : {&x.outcome, &x.races}) { unsigned long l = 0; if (!get(&l, sizeof l) || off + l > buf.size()) { good = false; break; } str->assign(buf.data() + off, l); off += l; }
                char fl[4]; unsigned long magic = 0; if (good && get(fl, 4) && get(&magic, sizeof magic) && magic == 0x76657269664f4b21ul) { x.deadlock = fl[0]; x.diverged = fl[1]; x.overflow = fl[2]; x.horizon = fl[3]; ok = true; } } }
        if (!ok || !WIFEXITED(status) || WEXITSTATUS(status) != 0) { x = Execution(); x.crashed = WIFSIGNALED(status) ? WTERMSIG(status) : 1000 + (WIFEXITED(status) ? WEXITSTATUS(status) : 255); x.outcome = "CRASHED: the process running this schedule ended with " + (WIFSIGNALED(status) ? "signal " + std::to_string(WTERMSIG(status)) : "exit status " + std::to_string(WIFEXITED(status) ? WEXITSTATUS(status) : 255)) + " before it reported";
            for (int c : prefix) { Point p{}; p.choice = c; p.n_enabled = 0; x.points.push_back(p); } crashes++; }
        executions++; points += (long)x.points.size(); for (auto& p : x.points) if (p.choice != 0) { with_switch++; break; } max_points = std::max<long>(max_points, (long)x.points.size()); outcomes.insert(x.outcome);
        return x;
    }
    Execution run_here(const std::vector<int>& prefix) {
        set_mode(MODE_EXPLORE, team); set_prefix(prefix.data(), (int)prefix.size()); begin_execution();
        Execution x; x.outcome = scenario();
        if (lset_drain) { static char buf[16384]; buf[0] = 0; if (lset_drain(buf, sizeof buf) > 0) x.races = buf; }
        const Trace& t = trace(); x.points.assign(t.p, t.p + t.n); x.deadlock = deadlocked(); x.diverged = diverged(); x.overflow = t.overflow; x.horizon = t.horizon_hit;
        set_mode(MODE_SERIAL, 1); set_prefix(nullptr, 0);
        executions++; points += t.n; for (int i = 0; i < t.n; i++) if (t.p[i].choice != 0) { with_switch++; break; } max_points = std::max<long>(max_points, t.n); outcomes.insert(x.outcome);
        return x;
    }
    static std::string schedule_text(const std::vector<int>& c) { std::string s; for (int v : c) s += char('0' + v); return s; }
    static std::vector<int> schedule_parse(const std::string& s) { std::vector<int> c; for (char ch : s) if (ch >= '0' && ch <= '9') c.push_back(ch - '0'); return c; }

    void explore(const std::vector<int>& prefix) {
        if (capped) return;
        if (executions >= max_executions || std::chrono::duration<double>(std::chrono::steady_clock::now() - t0).count() > deadline_s) { capped = true; return; }
        Execution x = run(prefix);
        if (sample_schedules.size() < 4) sample_schedules.push_back(x.choices());
        if (judge) judge(x);
        // preemptions used before each point
        std::vector<int> used(x.points.size() + 1, 0); for (size_t i = 0; i < x.points.size(); i++) used[i + 1] = used[i] + ((x.points[i].choice != 0 && x.points[i].running_enabled) ? 1 : 0);
        for (size_t i = prefix.size(); i < x.points.size(); i++) { const Point& p = x.points[i];
            for (int alt = 1; alt < p.n_enabled; alt++) { int cost = used[i] + (p.running_enabled ? 1 : 0); if (cost > bound) continue; int remaining = bound - cost;
                unsigned long k = p.state_key * 1099511628211ul + (unsigned long)alt * 0x9e3779b97f4a7c15ul; auto it = expanded.find(k);
                if (it != expanded.end() && it->second >= remaining) { pruned++; continue; } expanded[k] = remaining;
                std::vector<int> next; next.reserve(i + 1); for (size_t j = 0; j < i; j++) next.push_back(x.points[j].choice); next.push_back(alt);
                explore(next); if (capped) return; } }
    }
};
} // namespace vomp
