// vomp: a verification OpenMP runtime (DESIGN.md 2.6).
//
// The repository's parallelism reaches the OpenMP runtime through a handful of entry points only
// (`parallel for` with the static schedule is inlined by GCC from thread id and team size).  This file defines
// all of them, so the harnesses link WITHOUT libgomp and the schedule is ours:
//
//   serial  (default)  every parallel region runs with a team of one on the calling thread;
//   explore            a region runs with a team of T real pthreads of which exactly one runs at a time; the baton is
//                      handed over at scheduling points (region start, critical/lock entry and exit, hooked loop bodies,
//                      thread exit) according to a choice sequence supplied by the explorer (engine/vomp/vomp.hpp);
//   free               real concurrent threads, no baton (supplementary TSan pass).
//
// The scheduler's own bookkeeping uses preallocated plain arrays and raw futex system calls only, so that a thread
// sanitizer build of the *program* (this TU is never instrumented) sees exactly the synchronisation the program has.
#include "vomp.hpp"
#include <pthread.h>
#include <unistd.h>
#include <sys/syscall.h>
#include <linux/futex.h>
#include <atomic>
#include <algorithm>
#include <cstdio>
#include <cstdlib>
#include <cstring>
#include <climits>

#ifdef VOMP_TSAN
extern "C" void __tsan_acquire(void*);
extern "C" void __tsan_release(void*);
// the harness-supplied state hash reads the whole shared state from whichever thread reached the scheduling point: an observation of
// the explorer, not an access of the program
extern "C" void AnnotateIgnoreReadsBegin(const char*, int);
extern "C" void AnnotateIgnoreReadsEnd(const char*, int);
extern "C" void AnnotateIgnoreWritesBegin(const char*, int);
extern "C" void AnnotateIgnoreWritesEnd(const char*, int);
#define HASH_BEGIN() do { AnnotateIgnoreReadsBegin(__FILE__, __LINE__); AnnotateIgnoreWritesBegin(__FILE__, __LINE__); } while (0)
#define HASH_END() do { AnnotateIgnoreWritesEnd(__FILE__, __LINE__); AnnotateIgnoreReadsEnd(__FILE__, __LINE__); } while (0)
#define TSAN_ACQ(p) __tsan_acquire(p)
#define TSAN_REL(p) __tsan_release(p)
#else
#define TSAN_ACQ(p) ((void)0)
#define TSAN_REL(p) ((void)0)
#define HASH_BEGIN() do { if (vomp::lset::ignore) vomp::lset::ignore(+1); } while (0)
#define HASH_END() do { if (vomp::lset::ignore) vomp::lset::ignore(-1); } while (0)
#endif

namespace vomp {

static int g_mode = MODE_SERIAL;
static int g_team = 1;              // team size used in explore/free mode
static int g_requested_threads = 1; // what omp_set_num_threads asked for (informational)

// ------------------------------------------------------------------------------------------------ per-thread state
static thread_local int tl_tid = 0;       // omp_get_thread_num()
static thread_local int tl_team = 1;      // omp_get_num_threads()
static thread_local int tl_in_region = 0; // nesting depth

// ------------------------------------------------------------------------------------------------ explore state
static const int MAXT = 8;
static const int MAXLOCK = 4096;

struct Thr {
    pthread_t th;
    int state;             // 0 = not started, 1 = runnable, 2 = blocked on lock, 3 = finished, 4 = waiting at a barrier
    const void* waits_on;  // lock address / critical tag when blocked
    std::atomic<int> go;   // futex word: 1 = may run
    const char* site;
    long steps;
    unsigned long view;    // running hash of the shared-state hashes at this thread's resumption points
    void (*fn)(void*);
    void* data;
};
static Thr g_thr[MAXT];
static int g_nthr = 0;
static int g_running = -1;
static std::atomic<int> g_master_go;     // futex word for the master waiting for the region to end
static bool g_region_active = false;

struct LockEnt { const void* addr; int owner; };   // owner = -1 free
static LockEnt g_locks[MAXLOCK];
static int g_nlocks = 0;
static const char g_critical_tag = 0;            // address used as the identity of the unnamed critical
static pthread_mutex_t g_real_critical = PTHREAD_MUTEX_INITIALIZER; // gives TSan the program's real synchronisation

// choice machinery
static const int* g_prefix = nullptr; static int g_prefix_len = 0;
static Trace g_trace;
static unsigned long (*g_state_hash)() = nullptr;
static bool g_deadlock = false;
static bool g_diverged = false;
static long g_horizon = 200000;

static void futex_wait(std::atomic<int>* w, int val) { syscall(SYS_futex, (int*)w, FUTEX_WAIT_PRIVATE, val, nullptr, nullptr, 0); }
static void futex_wake(std::atomic<int>* w) { syscall(SYS_futex, (int*)w, FUTEX_WAKE_PRIVATE, INT_MAX, nullptr, nullptr, 0); }

static LockEnt* lock_ent(const void* a) {
    for (int i = 0; i < g_nlocks; i++) if (g_locks[i].addr == a) return &g_locks[i];
    if (g_nlocks == MAXLOCK) { fprintf(stderr, "vomp: lock table full\n"); abort(); }
    g_locks[g_nlocks].addr = a; g_locks[g_nlocks].owner = -1;
    return &g_locks[g_nlocks++];
}

static bool enabled(int t) {
    if (g_thr[t].state == 1) return true;
    if (g_thr[t].state == 2) return lock_ent(g_thr[t].waits_on)->owner == -1;
    return false;
}

// pick the next thread to run at a scheduling point reached by `cur` (cur may be -1 at region start or after an exit)
static int choose(int cur, const char* site) {
    int en[MAXT]; int n = 0;
    // canonical order: the running thread first if still enabled, then ascending ids
    if (cur >= 0 && enabled(cur)) en[n++] = cur;
    for (int t = 0; t < g_nthr; t++) if (t != cur && enabled(t)) en[n++] = t;
    if (n == 0) return -1;
    int pick = 0;
    int idx = g_trace.n;
    if (idx < g_prefix_len) {
        pick = g_prefix[idx];
        if (pick < 0 || pick >= n) { g_diverged = true; pick = 0; }
    }
    if (g_trace.n < Trace::MAXP) {
        Point& p = g_trace.p[g_trace.n];
        p.n_enabled = n; p.choice = pick; p.running_enabled = (cur >= 0 && n > 0 && en[0] == cur) ? 1 : 0;
        p.site = site; p.chosen_tid = en[pick];
        for (int i = 0; i < n && i < 8; i++) p.enabled[i] = en[i];
        HASH_BEGIN(); unsigned long h = g_state_hash ? g_state_hash() : 0; HASH_END();
        // key of the scheduler state: shared hash, lock owners, per-thread (state, site, steps, view)
        unsigned long k = h * 1099511628211ul;
        for (int i = 0; i < g_nlocks; i++) if (g_locks[i].owner >= 0) k = (k ^ ((unsigned long)(i + 1) * 31 + g_locks[i].owner)) * 1099511628211ul;
        for (int t = 0; t < g_nthr; t++) {
            k = (k ^ (unsigned long)g_thr[t].state) * 1099511628211ul;
            k = (k ^ (unsigned long)g_thr[t].steps) * 1099511628211ul;
            k = (k ^ g_thr[t].view) * 1099511628211ul;
            const char* s = g_thr[t].site ? g_thr[t].site : "";
            for (; *s; ++s) k = (k ^ (unsigned char)*s) * 1099511628211ul;
        }
        k = (k ^ (unsigned long)(cur + 1)) * 1099511628211ul;
        p.state_key = k; p.shared_hash = h;
        g_trace.n++;
    } else {
        g_trace.overflow = true;
    }
    return en[pick];
}

static void resume(int t) {
    g_running = t;
    HASH_BEGIN(); unsigned long h = g_state_hash ? g_state_hash() : 0; HASH_END();
    g_thr[t].view = (g_thr[t].view ^ h) * 1099511628211ul + 0x9e3779b97f4a7c15ul;
    if (g_thr[t].state == 2) { // it was blocked on a lock which is now free: it acquires it on resumption
        lock_ent(g_thr[t].waits_on)->owner = t;
        g_thr[t].state = 1; g_thr[t].waits_on = nullptr;
    }
    g_thr[t].go.store(1, std::memory_order_release);
    futex_wake(&g_thr[t].go);
}

static void wait_for_baton(int me) {
    while (g_thr[me].go.load(std::memory_order_acquire) == 0) futex_wait(&g_thr[me].go, 0);
    g_thr[me].go.store(0, std::memory_order_relaxed);
}

static void region_end_or_deadlock() {
    bool all_done = true;
    for (int t = 0; t < g_nthr; t++) if (g_thr[t].state != 3) all_done = false;
    if (!all_done) {
        g_deadlock = true;
        // release everybody so that the process can terminate the region: blocked threads are let through
        for (int t = 0; t < g_nthr; t++) if (g_thr[t].state == 2 || g_thr[t].state == 4) { g_thr[t].state = 1; }
        for (int t = 0; t < g_nthr; t++) if (g_thr[t].state == 1) { resume(t); return; }
    }
    g_running = -1;
    g_master_go.store(1, std::memory_order_release);
    futex_wake(&g_master_go);
}

// the running thread `me` reaches a scheduling point
static void point(const char* site) {
    if (g_mode != MODE_EXPLORE || !g_region_active) return;
    int me = tl_tid;
    g_thr[me].site = site; g_thr[me].steps++;
    if (g_thr[me].steps > g_horizon) { g_trace.horizon_hit = true; return; }
    int nxt = choose(me, site);
    if (nxt == me || nxt < 0) return;
    resume(nxt);
    wait_for_baton(me);
}

// ------------------------------------------------------------------------------------------------ sections work share
static std::atomic<int> g_sections_next; static int g_sections_count = 0;

// ------------------------------------------------------------------------------------------------ barrier, single, dynamically scheduled loops
static int g_barrier_arrived = 0;                      // explore mode (one thread runs at a time)
static pthread_barrier_t g_real_barrier; static bool g_real_barrier_ok = false;   // free mode
static std::atomic<unsigned long> g_single_count; static thread_local unsigned long tl_single_count = 0;
struct WS { unsigned long long n = 0, next = 0, chunk = 1; long long lstart = 0, lincr = 1; unsigned long long ustart = 0, uincr = 1; bool up = true; };   // a work share: n iterations, handed out in chunks
static WS g_ws; static std::atomic<unsigned long> g_ws_gen; static thread_local unsigned long tl_ws_count = 0; static thread_local WS tl_ws; static bool g_ws_preinit = false;
static pthread_mutex_t g_real_ws = PTHREAD_MUTEX_INITIALIZER;

static void* thread_main(void* arg) {
    int me = (int)(long)arg;
    tl_tid = me; tl_team = g_nthr; tl_in_region = 1; tl_single_count = 0; tl_ws_count = g_ws_preinit ? 1 : 0;
    if (lset::thread_begin) lset::thread_begin(me);
    if (g_mode == MODE_EXPLORE) wait_for_baton(me);
    g_thr[me].fn(g_thr[me].data);
    if (g_mode == MODE_EXPLORE) {
        g_thr[me].state = 3; g_thr[me].site = "exit";
        int nxt = choose(-1, "thread_exit");
        if (nxt >= 0) resume(nxt); else region_end_or_deadlock();
    }
    return nullptr;
}

static void run_region(void (*fn)(void*), void* data) {
    if (g_mode == MODE_SERIAL || tl_in_region) {  // nested regions are serialised, as libgomp does by default
        int st = tl_tid, tt = tl_team, ti = tl_in_region;
        tl_tid = 0; tl_team = 1; tl_in_region = ti + 1;
        fn(data);
        tl_tid = st; tl_team = tt; tl_in_region = ti;
        return;
    }
    int T = g_team; if (T > MAXT) T = MAXT; if (T < 1) T = 1;
    g_nthr = T; g_region_active = true;
    g_trace.regions++;
    for (int t = 0; t < T; t++) {
        g_thr[t].state = 1; g_thr[t].waits_on = nullptr; g_thr[t].go.store(0); g_thr[t].site = "start";
        g_thr[t].steps = 0; g_thr[t].view = 1469598103934665603ul; g_thr[t].fn = fn; g_thr[t].data = data;
    }
    g_master_go.store(0); g_barrier_arrived = 0; g_single_count.store(0); g_ws_gen.store(g_ws_preinit ? 1 : 0);
    if (g_mode == MODE_FREE) { pthread_barrier_init(&g_real_barrier, nullptr, (unsigned)T); g_real_barrier_ok = true; }
    for (int t = 0; t < T; t++) pthread_create(&g_thr[t].th, nullptr, thread_main, (void*)(long)t);
    if (g_mode == MODE_EXPLORE) {
        if (lset::region_begin) lset::region_begin(T);
        int first = choose(-1, "region_start");
        resume(first);
        while (g_master_go.load(std::memory_order_acquire) == 0) futex_wait(&g_master_go, 0);
    }
    for (int t = 0; t < T; t++) pthread_join(g_thr[t].th, nullptr);
    if (lset::region_end) lset::region_end();
    if (g_real_barrier_ok) { pthread_barrier_destroy(&g_real_barrier); g_real_barrier_ok = false; }
    g_ws_preinit = false;
    g_region_active = false; g_running = -1; g_nthr = 0;
}

// ------------------------------------------------------------------------------------------------ public control API
void set_mode(int mode, int team) { g_mode = mode; g_team = team < 1 ? 1 : team; }
int  mode() { return g_mode; }
void set_prefix(const int* choices, int n) { g_prefix = choices; g_prefix_len = n; }
void set_state_hash(unsigned long (*f)()) { g_state_hash = f; }
void set_horizon(long h) { g_horizon = h; }
void begin_execution() { g_trace.n = 0; g_trace.overflow = false; g_trace.horizon_hit = false; g_trace.regions = 0; g_deadlock = false; g_diverged = false; g_nlocks = 0; }
const Trace& trace() { return g_trace; }
bool deadlocked() { return g_deadlock; }
bool diverged() { return g_diverged; }
void sched_point(const char* site) { point(site); }
int requested_threads() { return g_requested_threads; }
int running_tid() { return (g_mode == MODE_EXPLORE && g_region_active) ? g_running : -1; }

} // namespace vomp

using namespace vomp;

extern "C" {

void GOMP_parallel(void (*fn)(void*), void* data, unsigned num_threads, unsigned flags) { run_region(fn, data); }

void GOMP_parallel_sections(void (*fn)(void*), void* data, unsigned num_threads, unsigned count, unsigned flags) {
    g_sections_count = (int)count; g_sections_next.store(1);
    run_region(fn, data);
}
unsigned GOMP_sections_next() {
    point("sections_next");
    int s = g_sections_next.fetch_add(1);
    return s <= g_sections_count ? (unsigned)s : 0u;
}
void GOMP_sections_end_nowait() {}
void GOMP_sections_end() {}
unsigned GOMP_sections_start(unsigned count) { g_sections_count = (int)count; g_sections_next.store(2); return 1; }
void GOMP_barrier() {
    if (tl_team <= 1 || !tl_in_region) return;
    if (g_mode == MODE_FREE) { if (g_real_barrier_ok) pthread_barrier_wait(&g_real_barrier); return; }
    if (g_mode != MODE_EXPLORE || !g_region_active) return;
    int me = tl_tid; point("barrier"); static char barrier_tag; TSAN_REL(&barrier_tag);
    int alive = 0; for (int t = 0; t < g_nthr; t++) if (g_thr[t].state != 3) alive++;
    if (++g_barrier_arrived >= alive) {                    // the last one to arrive releases the others and goes on
        g_barrier_arrived = 0; for (int t = 0; t < g_nthr; t++) if (g_thr[t].state == 4) g_thr[t].state = 1;
        if (lset::epoch) lset::epoch();
        TSAN_ACQ(&barrier_tag); point("barrier_release"); return; }
    g_thr[me].state = 4; g_thr[me].site = "barrier_wait";
    int nxt = choose(-1, "blocked_at_barrier");
    if (nxt < 0) region_end_or_deadlock(); else resume(nxt);     // nobody can run: a thread left the region without reaching the barrier
    wait_for_baton(me); TSAN_ACQ(&barrier_tag);
}
bool GOMP_single_start() {
    if (tl_team <= 1 || !tl_in_region || g_mode == MODE_SERIAL) return true;
    point("single_start");
    unsigned long mine = tl_single_count++, expect = mine;
    return g_single_count.compare_exchange_strong(expect, mine + 1);     // the first thread to reach this instance of the construct executes it
}

// dynamically scheduled loops: iterations are handed out chunk by chunk, every hand-out is a scheduling point
static WS* ws_cur() { return (tl_team <= 1 || !tl_in_region || g_mode == MODE_SERIAL) ? &tl_ws : &g_ws; }
static void ws_init(const WS& w) { WS* c = ws_cur(); if (c == &tl_ws) { tl_ws = w; return; } unsigned long mine = tl_ws_count++; if (g_mode == MODE_FREE) pthread_mutex_lock(&g_real_ws); else TSAN_ACQ(&g_real_ws); if (g_ws_gen.load() == mine) { g_ws = w; g_ws_gen.store(mine + 1); } if (g_mode == MODE_FREE) pthread_mutex_unlock(&g_real_ws); else TSAN_REL(&g_real_ws); }
static bool ws_take(unsigned long long* i0, unsigned long long* i1) { WS* c = ws_cur(); if (c == &g_ws) { point("loop_next"); if (g_mode == MODE_FREE) pthread_mutex_lock(&g_real_ws); else TSAN_ACQ(&g_real_ws); } bool ok = c->next < c->n; if (ok) { *i0 = c->next; *i1 = std::min(c->n, c->next + c->chunk); c->next = *i1; } if (c == &g_ws) { if (g_mode == MODE_FREE) pthread_mutex_unlock(&g_real_ws); else TSAN_REL(&g_real_ws); } return ok; }
static WS ws_long(long start, long end, long incr, long chunk) { WS w; w.lstart = start; w.lincr = incr; w.chunk = chunk > 0 ? (unsigned long long)chunk : 1; w.n = incr > 0 ? (end > start ? (unsigned long long)((end - start + incr - 1) / incr) : 0) : (end < start ? (unsigned long long)((start - end - incr - 1) / -incr) : 0); return w; }
static WS ws_ull(bool up, unsigned long long start, unsigned long long end, unsigned long long incr, unsigned long long chunk) { WS w; w.up = up; w.ustart = start; w.uincr = incr; w.chunk = chunk ? chunk : 1; if (up) w.n = end > start ? (end - start + incr - 1) / incr : 0; else { unsigned long long d = 0 - incr; w.n = start > end ? (start - end + d - 1) / d : 0; } return w; }
static bool ws_next_long(long* s, long* e) { unsigned long long a, b; if (!ws_take(&a, &b)) return false; WS* c = ws_cur(); *s = c->lstart + (long)a * c->lincr; *e = c->lstart + (long)b * c->lincr; return true; }
static bool ws_next_ull(unsigned long long* s, unsigned long long* e) { unsigned long long a, b; if (!ws_take(&a, &b)) return false; WS* c = ws_cur(); *s = c->ustart + a * c->uincr; *e = c->ustart + b * c->uincr; return true; }
#define VOMP_LOOP_FAMILY(NAME) \
bool GOMP_loop_##NAME##_start(long start, long end, long incr, long chunk, long* is, long* ie) { ws_init(ws_long(start, end, incr, chunk)); return ws_next_long(is, ie); } \
bool GOMP_loop_##NAME##_next(long* is, long* ie) { return ws_next_long(is, ie); } \
bool GOMP_loop_ull_##NAME##_start(bool up, unsigned long long start, unsigned long long end, unsigned long long incr, unsigned long long chunk, unsigned long long* is, unsigned long long* ie) { ws_init(ws_ull(up, start, end, incr, chunk)); return ws_next_ull(is, ie); } \
bool GOMP_loop_ull_##NAME##_next(unsigned long long* is, unsigned long long* ie) { return ws_next_ull(is, ie); } \
void GOMP_parallel_loop_##NAME(void (*fn)(void*), void* data, unsigned num_threads, long start, long end, long incr, long chunk, unsigned flags) { \
    if (g_mode == MODE_SERIAL || tl_in_region) { WS saved = tl_ws; int ti = tl_in_region, st = tl_tid, tt = tl_team; tl_tid = 0; tl_team = 1; tl_in_region = ti + 1; tl_ws = ws_long(start, end, incr, chunk); fn(data); tl_ws = saved; tl_tid = st; tl_team = tt; tl_in_region = ti; return; } \
    g_ws = ws_long(start, end, incr, chunk); g_ws_preinit = true; run_region(fn, data); }
VOMP_LOOP_FAMILY(dynamic) VOMP_LOOP_FAMILY(nonmonotonic_dynamic) VOMP_LOOP_FAMILY(guided) VOMP_LOOP_FAMILY(nonmonotonic_guided)
#define VOMP_RUNTIME_FAMILY(NAME) \
bool GOMP_loop_##NAME##_start(long start, long end, long incr, long* is, long* ie) { ws_init(ws_long(start, end, incr, 1)); return ws_next_long(is, ie); } \
bool GOMP_loop_##NAME##_next(long* is, long* ie) { return ws_next_long(is, ie); } \
bool GOMP_loop_ull_##NAME##_start(bool up, unsigned long long start, unsigned long long end, unsigned long long incr, unsigned long long* is, unsigned long long* ie) { ws_init(ws_ull(up, start, end, incr, 1)); return ws_next_ull(is, ie); } \
bool GOMP_loop_ull_##NAME##_next(unsigned long long* is, unsigned long long* ie) { return ws_next_ull(is, ie); } \
void GOMP_parallel_loop_##NAME(void (*fn)(void*), void* data, unsigned num_threads, long start, long end, long incr, unsigned flags) { \
    if (g_mode == MODE_SERIAL || tl_in_region) { WS saved = tl_ws; int ti = tl_in_region, st = tl_tid, tt = tl_team; tl_tid = 0; tl_team = 1; tl_in_region = ti + 1; tl_ws = ws_long(start, end, incr, 1); fn(data); tl_ws = saved; tl_tid = st; tl_team = tt; tl_in_region = ti; return; } \
    g_ws = ws_long(start, end, incr, 1); g_ws_preinit = true; run_region(fn, data); }
VOMP_RUNTIME_FAMILY(runtime) VOMP_RUNTIME_FAMILY(nonmonotonic_runtime) VOMP_RUNTIME_FAMILY(maybe_nonmonotonic_runtime)
void GOMP_loop_end() { GOMP_barrier(); }
void GOMP_loop_end_nowait() {}

static void lock_acquire(const void* addr, const char* site) {
    if (g_mode == MODE_EXPLORE && g_region_active) {
        int me = tl_tid;
        point(site);                       // scheduling point before the acquisition
        LockEnt* l = lock_ent(addr);
        while (l->owner != -1 && l->owner != me) {   // blocked: disabled until the owner releases
            g_thr[me].state = 2; g_thr[me].waits_on = addr; g_thr[me].site = site;
            int nxt = choose(-1, "blocked");
            if (nxt < 0) { region_end_or_deadlock(); }
            else if (nxt != me) resume(nxt); else { resume(me); }
            wait_for_baton(me);
            l = lock_ent(addr);
            if (g_deadlock) break;
        }
        l->owner = me; if (lset::lock) lset::lock(me, addr);
    }
}
static void lock_release(const void* addr, const char* site) {
    if (g_mode == MODE_EXPLORE && g_region_active) {
        LockEnt* l = lock_ent(addr);
        l->owner = -1; if (lset::unlock) lset::unlock(tl_tid, addr);
        point(site);                       // scheduling point after the release
    }
}

void GOMP_critical_start() {
    lock_acquire(&g_critical_tag, "critical_start");
    if (g_mode == MODE_FREE) pthread_mutex_lock(&g_real_critical); else if (g_mode == MODE_EXPLORE) TSAN_ACQ(&g_real_critical);   // explore: one thread runs at a time, the sanitizer only needs the ordering
}
void GOMP_critical_end() {
    if (g_mode == MODE_FREE) pthread_mutex_unlock(&g_real_critical); else if (g_mode == MODE_EXPLORE) TSAN_REL(&g_real_critical);
    lock_release(&g_critical_tag, "critical_end");
}
static pthread_mutex_t g_real_atomic = PTHREAD_MUTEX_INITIALIZER;
void GOMP_atomic_start() { if (g_mode == MODE_FREE) pthread_mutex_lock(&g_real_atomic); else if (g_mode == MODE_EXPLORE) { TSAN_ACQ(&g_real_atomic); if (lset::lock && g_region_active) lset::lock(tl_tid, &g_real_atomic); } }
void GOMP_atomic_end() { if (g_mode == MODE_FREE) pthread_mutex_unlock(&g_real_atomic); else if (g_mode == MODE_EXPLORE) { TSAN_REL(&g_real_atomic); if (lset::unlock && g_region_active) lset::unlock(tl_tid, &g_real_atomic); } }

// OpenMP locks: keyed by address in a side table.  The repository copies `node` objects (and with them the lock
// bytes) and default-constructed nodes never call omp_init_lock; libgomp tolerates this because its lock is a plain
// int.  The side table gives the same semantics without touching the bytes.
static pthread_mutex_t g_real_locks[64];
static struct RealLocksInit { RealLocksInit() { for (auto& m : g_real_locks) pthread_mutex_init(&m, nullptr); } } g_real_locks_init;   // at load time, single threaded
static pthread_mutex_t* real_lock_for(const void* a) { return &g_real_locks[((unsigned long)a >> 4) % 64]; }
void omp_init_lock(void* l) { }
void omp_destroy_lock(void* l) { }
void omp_set_lock(void* l) {
    lock_acquire(l, "omp_set_lock");
    if (g_mode == MODE_FREE) pthread_mutex_lock(real_lock_for(l)); else if (g_mode == MODE_EXPLORE) TSAN_ACQ(real_lock_for(l));
}
void omp_unset_lock(void* l) {
    if (g_mode == MODE_FREE) pthread_mutex_unlock(real_lock_for(l)); else if (g_mode == MODE_EXPLORE) TSAN_REL(real_lock_for(l));
    lock_release(l, "omp_unset_lock");
}
int omp_get_thread_num() { return tl_tid; }
int omp_get_num_threads() { return tl_team; }
int omp_get_num_procs() { return 16; }
int omp_get_max_threads() { return g_mode == MODE_SERIAL ? 1 : g_team; }
void omp_set_num_threads(int n) { g_requested_threads = n; }
int omp_in_parallel() { return tl_in_region > 0; }

} // extern "C"
