#pragma once
// Control interface of vomp (the verification OpenMP runtime), see vomp.cpp and DESIGN.md 2.6.
namespace vomp {
enum { MODE_SERIAL = 0, MODE_EXPLORE = 1, MODE_FREE = 2 };

struct Point {
    int n_enabled;          // number of enabled threads at this scheduling point
    int choice;             // index (in canonical order) of the thread that was chosen
    int running_enabled;    // 1 if the thread that reached the point could have continued (choosing another is a preemption)
    int chosen_tid;
    int enabled[8];
    const char* site;
    unsigned long state_key;   // hash of (shared state, lock owners, per-thread site/steps/view) BEFORE the choice
    unsigned long shared_hash;
};
struct Trace {
    static const int MAXP = 20000;
    Point p[MAXP];
    int n = 0;
    bool overflow = false;
    bool horizon_hit = false;
    int regions = 0;
};

void set_mode(int mode, int team);
int  mode();
void set_prefix(const int* choices, int n);          // choices to replay; afterwards choice 0 everywhere
void set_state_hash(unsigned long (*f)());            // harness-supplied hash of the shared observable state
void set_horizon(long h);
void begin_execution();
const Trace& trace();
bool deadlocked();
bool diverged();
void sched_point(const char* site);                   // called by the H3 hooks
int requested_threads();
int running_tid();                                      // id (0..team-1) of the thread that holds the baton in explore mode, -1 otherwise
// lockset race detector (engine/vomp/lset.cpp), present only in the 'lset' build variants
int lset_drain(char* buf, int cap) __attribute__((weak));
long lset_accesses() __attribute__((weak));
void lset_watch(const void* p, unsigned long n) __attribute__((weak));   // p == nullptr clears the list; with a non-empty list only conflicts on the listed bytes are reported
long lset_unwatched_conflicts() __attribute__((weak));
long lset_dropped() __attribute__((weak));
namespace lset { void region_begin(int team) __attribute__((weak)); void region_end() __attribute__((weak)); void epoch() __attribute__((weak)); void thread_begin(int tid) __attribute__((weak));
                 void lock(int tid, const void* l) __attribute__((weak)); void unlock(int tid, const void* l) __attribute__((weak)); void ignore(int d) __attribute__((weak)); }
}
