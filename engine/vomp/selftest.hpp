#pragma once
// Self-test of the verification OpenMP runtime and of the explorer: six tiny kernels written with real OpenMP pragmas (compiled by the same compiler, so they
// call the same GOMP_* entry points as the repository's code) whose complete sets of outcomes are known.  A scheduler that has never been seen to find a
// lost update, to honour a critical section, a barrier, a single construct, a dynamically scheduled loop, or to report a deadlock, has not been shown to work.
#include "explorer.hpp"
#include <omp.h>
#include <set>
#include <string>

namespace vomp_selftest {
static int g_x; static int g_a[4]; static omp_lock_t g_l1, g_l2;
static unsigned long hash_x() { unsigned long h = (unsigned long)g_x * 1000003ul; for (int v : g_a) h = h * 31 + (unsigned long)v; return h; }

static std::string k_lost_update() { g_x = 0;
    #pragma omp parallel
    { int t = g_x; vomp::sched_point("between read and write"); g_x = t + 1; }
    return std::to_string(g_x); }
static std::string k_critical() { g_x = 0;
    #pragma omp parallel
    {
        #pragma omp critical
        { int t = g_x; vomp::sched_point("inside critical"); g_x = t + 1; }
    }
    return std::to_string(g_x); }
static std::string k_barrier() { for (int& v : g_a) v = 0; int seen[4] = {0, 0, 0, 0};
    #pragma omp parallel
    { int me = omp_get_thread_num(), n = omp_get_num_threads(); g_a[me] = 1; vomp::sched_point("after write");
        #pragma omp barrier
        int s = 0; for (int i = 0; i < n; i++) s += g_a[i]; seen[me] = s; }
    return std::to_string(seen[0]) + std::to_string(seen[1]); }
static std::string k_no_barrier() { for (int& v : g_a) v = 0; int seen[4] = {0, 0, 0, 0};
    #pragma omp parallel
    { int me = omp_get_thread_num(), n = omp_get_num_threads(); g_a[me] = 1; vomp::sched_point("after write"); int s = 0; for (int i = 0; i < n; i++) s += g_a[i]; seen[me] = s; }
    return std::to_string(seen[0]) + std::to_string(seen[1]); }
static std::string k_single() { g_x = 0; int who = -1;
    #pragma omp parallel
    {
        vomp::sched_point("before single");
        #pragma omp single
        { g_x++; who = omp_get_thread_num(); }
    }
    return std::to_string(g_x) + "by" + std::to_string(who); }
static std::string k_dynamic() { int owner[3] = {-1, -1, -1}; g_x = 0;
    #pragma omp parallel for schedule(dynamic, 1)
    for (int i = 0; i < 3; i++) { owner[i] = omp_get_thread_num();
        #pragma omp atomic
        g_x++; }
    return std::to_string(g_x) + ":" + std::to_string(owner[0]) + std::to_string(owner[1]) + std::to_string(owner[2]); }
static std::string k_dynamic_ull() { size_t n = 3; int cnt[3] = {0, 0, 0};
    #pragma omp parallel for schedule(dynamic)
    for (size_t i = 0; i < n; i++) cnt[i]++;
    return std::to_string(cnt[0]) + std::to_string(cnt[1]) + std::to_string(cnt[2]); }
static double g_d;
static std::string k_plain_vs_atomic() { g_d = 0;
    #pragma omp parallel
    { if (omp_get_thread_num() == 0) { double t = g_d; vomp::sched_point("between load and store"); g_d = t - 1.0; } else {
        #pragma omp atomic update
        g_d += 1.0; } }
    return std::to_string(g_d); }
static std::string k_atomic_only() { g_d = 0;
    #pragma omp parallel
    {
        #pragma omp atomic update
        g_d += 1.0; }
    return std::to_string(g_d); }
static std::string k_deadlock() { g_x = 0;
    #pragma omp parallel
    { if (omp_get_thread_num() == 0) { omp_set_lock(&g_l1); vomp::sched_point("holding l1"); omp_set_lock(&g_l2); g_x++; omp_unset_lock(&g_l2); omp_unset_lock(&g_l1); }
      else { omp_set_lock(&g_l2); vomp::sched_point("holding l2"); omp_set_lock(&g_l1); g_x++; omp_unset_lock(&g_l1); omp_unset_lock(&g_l2); } }
    return std::to_string(g_x); }

struct Report { std::string error; long schedules = 0; std::string detail; };
// expectations: the exact set of outcomes at the stated bound, and whether some schedule must deadlock
inline Report run() {
    Report r; struct T { const char* name; std::string (*k)(); int team, bound; std::set<std::string> expect; bool expect_deadlock; int expect_race; /* lockset builds: 1 = the detector must report a race in every execution, 0 = in none */ };
    std::vector<T> tests = {
        {"lost update, no preemption", k_lost_update, 2, 0, {"2"}, false, 1},
        {"lost update, one preemption", k_lost_update, 2, 1, {"1", "2"}, false, 1},
        {"critical section", k_critical, 2, 2, {"2"}, false, 0},
        {"barrier", k_barrier, 2, 2, {"22"}, false, 0},
        {"no barrier", k_no_barrier, 2, 1, {"12", "21", "22"}, false, 1},
        {"single", k_single, 2, 1, {"1by0", "1by1"}, false, 0},
        {"dynamic loop", k_dynamic, 2, 2, {"3:000", "3:001", "3:010", "3:011", "3:100", "3:101", "3:110", "3:111"}, false, 0},
        {"dynamic loop (unsigned long long)", k_dynamic_ull, 3, 1, {"111"}, false, 0},
        {"lock order inversion", k_deadlock, 2, 1, {}, true, -1},
        {"plain store against atomic update", k_plain_vs_atomic, 2, 1, {"0.000000", "-1.000000"}, false, 1},
        {"atomic updates only", k_atomic_only, 2, 1, {"2.000000"}, false, 0},
    };
    for (auto& t : tests) { vomp::Explorer E; E.team = t.team; E.bound = t.bound; E.scenario = t.k; vomp::set_state_hash(hash_x); bool dl = false, bad = false; long with_race = 0, without_race = 0; E.judge = [&](const vomp::Execution& x) { if (x.deadlock) dl = true; if (x.diverged || x.overflow) bad = true; if (x.races.empty()) without_race++; else with_race++; };
        E.explore({}); r.schedules += E.executions; std::set<std::string> got; for (auto& o : E.outcomes) got.insert(o);
        std::string gs; for (auto& o : got) gs += o + " "; r.detail += std::string(t.name) + " [bound " + std::to_string(t.bound) + ", " + std::to_string(E.executions) + " schedules]: " + gs + (dl ? "(deadlock found) " : "") + "; ";
        if (bad) { r.error = std::string("self-test '") + t.name + "': schedule diverged or trace overflow"; break; }
        if (vomp::lset_drain && t.expect_race == 1 && without_race) { r.error = std::string("self-test '") + t.name + "': the lockset detector missed the race in " + std::to_string(without_race) + " executions"; break; }
        if (vomp::lset_drain && t.expect_race == 0 && with_race) { r.error = std::string("self-test '") + t.name + "': the lockset detector reported a race in correctly synchronised code"; break; }
        if (vomp::lset_drain) r.detail += (with_race ? "[race reported in " + std::to_string(with_race) + "/" + std::to_string(with_race + without_race) + " executions] " : std::string("[no race reported] "));
        if (t.expect_deadlock) { if (!dl) { r.error = std::string("self-test '") + t.name + "': the deadlock was not found"; break; } continue; }
        if (dl) { r.error = std::string("self-test '") + t.name + "': spurious deadlock"; break; }
        if (got != t.expect) { r.error = std::string("self-test '") + t.name + "': outcomes {" + gs + "} differ from the expected set"; break; } }
    vomp::set_state_hash(nullptr); vomp::set_mode(vomp::MODE_SERIAL, 1);
    return r;
}
} // namespace vomp_selftest
