#pragma once
// SimuCell3D-specific shared pieces: seed meshes, cell construction, the independent mesh oracle, canonical keys,
// parameter factories.  Compiled with -fno-access-control: private fields are read directly (no source hook needed).
#include "common.hpp"
#include "cell.hpp"
#include "epithelial_cell.hpp"
#include "ecm_cell.hpp"
#include "lumen_cell.hpp"
#include "nucleus_cell.hpp"
#include "static_cell.hpp"
#include "local_mesh_refiner.hpp"
#include <array>
#include <algorithm>
#include <numeric>

namespace simucell3d_verif { extern unsigned long g_base_seed; void reset_rng_counters(); }

namespace sc {

struct Mesh { std::vector<double> pos; std::vector<unsigned> tri; std::string name;
    size_t nv() const { return pos.size() / 3; } size_t nf() const { return tri.size() / 3; } };

inline Mesh tetrahedron() { Mesh m; m.name = "tetrahedron"; m.pos = {1,1,1, 1,-1,-1, -1,1,-1, -1,-1,1}; m.tri = {0,1,2, 0,3,1, 0,2,3, 1,3,2}; return m; }
inline Mesh octahedron() { Mesh m; m.name = "octahedron"; m.pos = {1,0,0, -1,0,0, 0,1,0, 0,-1,0, 0,0,1, 0,0,-1};
    m.tri = {0,2,4, 2,1,4, 1,3,4, 3,0,4, 2,0,5, 1,2,5, 3,1,5, 0,3,5}; return m; }
inline Mesh bipyramid() { Mesh m; m.name = "bipyramid"; m.pos = {1,0,0, -0.5,0.8660254037844386,0, -0.5,-0.8660254037844386,0, 0,0,1.2, 0,0,-1.2};
    m.tri = {0,1,3, 1,2,3, 2,0,3, 1,0,4, 2,1,4, 0,2,4}; return m; }
inline Mesh cube12() { Mesh m; m.name = "cube12"; m.pos = {0,0,0, 1,0,0, 1,1,0, 0,1,0, 0,0,1, 1,0,1, 1,1,1, 0,1,1};
    m.tri = {0,2,1, 0,3,2,  4,5,6, 4,6,7,  0,1,5, 0,5,4,  1,2,6, 1,6,5,  2,3,7, 2,7,6,  3,0,4, 3,4,7}; return m; }
inline Mesh icosahedron() { Mesh m; m.name = "icosahedron"; const double t = (1.0 + std::sqrt(5.0)) / 2.0;
    m.pos = {-1,t,0, 1,t,0, -1,-t,0, 1,-t,0, 0,-1,t, 0,1,t, 0,-1,-t, 0,1,-t, t,0,-1, t,0,1, -t,0,-1, -t,0,1};
    m.tri = {0,11,5, 0,5,1, 0,1,7, 0,7,10, 0,10,11, 1,5,9, 5,11,4, 11,10,2, 10,7,6, 7,1,8, 3,9,4, 3,4,2, 3,2,6, 3,6,8, 3,8,9, 4,9,5, 2,4,11, 6,2,10, 8,6,7, 9,8,1};
    return m; }
// cube with one face pushed in through a centre vertex: non-convex, 9 vertices, 14 triangles
inline Mesh dented_cube() { Mesh m = cube12(); m.name = "dented_cube"; m.pos.insert(m.pos.end(), {0.5, 0.5, 0.6});
    // replace top face (4,5,6),(4,6,7) by a fan around vertex 8
    std::vector<unsigned> t; for (size_t i = 0; i < m.nf(); i++) { if (i == 2 || i == 3) continue; t.insert(t.end(), {m.tri[3*i], m.tri[3*i+1], m.tri[3*i+2]}); }
    t.insert(t.end(), {4,5,8, 5,6,8, 6,7,8, 7,4,8}); m.tri = t; return m; }
// triangular prism, 6 vertices, 8 triangles, integer coordinates
inline Mesh prism() { Mesh m; m.name = "prism"; m.pos = {0,0,0, 2,0,0, 0,2,0, 0,0,3, 2,0,3, 0,2,3};
    m.tri = {0,2,1, 3,4,5, 0,1,4, 0,4,3, 1,2,5, 1,5,4, 2,0,3, 2,3,5}; return m; }

inline Mesh subdivide_sphere(const Mesh& in, const std::string& name) {
    Mesh m; m.name = name; m.pos = in.pos; std::map<std::pair<unsigned, unsigned>, unsigned> mid;
    auto midpoint = [&](unsigned a, unsigned b) { auto k = std::minmax(a, b); auto it = mid.find(k); if (it != mid.end()) return it->second;
        double x = (m.pos[3*a] + m.pos[3*b]) / 2, y = (m.pos[3*a+1] + m.pos[3*b+1]) / 2, z = (m.pos[3*a+2] + m.pos[3*b+2]) / 2; double n = std::sqrt(x*x + y*y + z*z);
        unsigned id = m.pos.size() / 3; m.pos.insert(m.pos.end(), {x / n, y / n, z / n}); mid[k] = id; return id; };
    for (size_t i = 0; i < in.nf(); i++) { unsigned a = in.tri[3*i], b = in.tri[3*i+1], c = in.tri[3*i+2]; unsigned ab = midpoint(a, b), bc = midpoint(b, c), ca = midpoint(c, a);
        m.tri.insert(m.tri.end(), {a, ab, ca, b, bc, ab, c, ca, bc, ab, bc, ca}); }
    return m; }
// 1-to-4 subdivision keeping the midpoints where they are (flat faces stay flat)
inline Mesh subdivide_flat(const Mesh& in, const std::string& name) {
    Mesh m; m.name = name; m.pos = in.pos; std::map<std::pair<unsigned, unsigned>, unsigned> mid;
    auto midpoint = [&](unsigned a, unsigned b) { auto k = std::minmax(a, b); auto it = mid.find(k); if (it != mid.end()) return it->second; unsigned id = m.pos.size() / 3; for (int j = 0; j < 3; j++) m.pos.push_back((m.pos[3*a+j] + m.pos[3*b+j]) / 2); mid[k] = id; return id; };
    for (size_t i = 0; i < in.nf(); i++) { unsigned a = in.tri[3*i], b = in.tri[3*i+1], c = in.tri[3*i+2]; unsigned ab = midpoint(a, b), bc = midpoint(b, c), ca = midpoint(c, a); m.tri.insert(m.tri.end(), {a, ab, ca, b, bc, ab, c, ca, bc, ab, bc, ca}); }
    return m; }
inline Mesh icosphere(int level) { Mesh m = icosahedron(); for (size_t i = 0; i < m.nv(); i++) { double n = std::sqrt(m.pos[3*i]*m.pos[3*i] + m.pos[3*i+1]*m.pos[3*i+1] + m.pos[3*i+2]*m.pos[3*i+2]); for (int k = 0; k < 3; k++) m.pos[3*i+k] /= n; }
    for (int l = 0; l < level; l++) m = subdivide_sphere(m, ""); m.name = "icosphere" + std::to_string(m.nv()); return m; }

inline Mesh transformed(const Mesh& in, const std::array<double, 9>& R, const std::array<double, 3>& t, double s = 1.0) {
    Mesh m = in; for (size_t i = 0; i < m.nv(); i++) { double x = in.pos[3*i] * s, y = in.pos[3*i+1] * s, z = in.pos[3*i+2] * s;
        m.pos[3*i] = R[0]*x + R[1]*y + R[2]*z + t[0]; m.pos[3*i+1] = R[3]*x + R[4]*y + R[5]*z + t[1]; m.pos[3*i+2] = R[6]*x + R[7]*y + R[8]*z + t[2]; }
    if (R[0]*(R[4]*R[8]-R[5]*R[7]) - R[1]*(R[3]*R[8]-R[5]*R[6]) + R[2]*(R[3]*R[7]-R[4]*R[6]) < 0) for (size_t i = 0; i < m.nf(); i++) std::swap(m.tri[3*i+1], m.tri[3*i+2]);
    return m; }
inline Mesh scaled(const Mesh& in, double sx, double sy, double sz) { Mesh m = in; for (size_t i = 0; i < m.nv(); i++) { m.pos[3*i] *= sx; m.pos[3*i+1] *= sy; m.pos[3*i+2] *= sz; } return m; }
inline Mesh translated(const Mesh& in, double tx, double ty, double tz) { Mesh m = in; for (size_t i = 0; i < m.nv(); i++) { m.pos[3*i] += tx; m.pos[3*i+1] += ty; m.pos[3*i+2] += tz; } return m; }
// renumber nodes: new id of old node i is perm[i]
inline Mesh renumbered(const Mesh& in, const std::vector<unsigned>& perm) { Mesh m = in; for (size_t i = 0; i < in.nv(); i++) for (int k = 0; k < 3; k++) m.pos[3*perm[i]+k] = in.pos[3*i+k]; for (auto& v : m.tri) v = perm[v]; return m; }
inline const std::array<double, 9> ID3 = {1,0,0, 0,1,0, 0,0,1};
inline std::vector<std::array<double, 9>> cube_rotations() { // the 24 proper rotations of the cube, exact
    std::vector<std::array<double, 9>> out; int p[3] = {0, 1, 2};
    do { for (int s = 0; s < 8; s++) { std::array<double, 9> R{}; for (int i = 0; i < 3; i++) R[3*i + p[i]] = (s >> i & 1) ? -1 : 1;
        double det = R[0]*(R[4]*R[8]-R[5]*R[7]) - R[1]*(R[3]*R[8]-R[5]*R[6]) + R[2]*(R[3]*R[7]-R[4]*R[6]); if (det > 0) out.push_back(R); } } while (std::next_permutation(p, p + 3));
    return out; }
// exact rational rotations from Pythagorean triples
inline std::array<double, 9> rot_z_345() { return {3.0/5, -4.0/5, 0, 4.0/5, 3.0/5, 0, 0, 0, 1}; }
inline std::array<double, 9> rot_x_51213() { return {1, 0, 0, 0, 5.0/13, -12.0/13, 0, 12.0/13, 5.0/13}; }
inline std::array<double, 9> matmul(const std::array<double, 9>& A, const std::array<double, 9>& B) { std::array<double, 9> C{}; for (int i = 0; i < 3; i++) for (int j = 0; j < 3; j++) for (int k = 0; k < 3; k++) C[3*i+j] += A[3*i+k] * B[3*k+j]; return C; }

// ------------------------------------------------------------------------------------------------ parameters
inline face_type_parameters make_face_type(const std::string& name, short gid, double tension = 1.0, double adh = 1.0, double rep = 1.0, double bend = 0.0) {
    face_type_parameters f; f.name_ = name; f.face_type_global_id_ = gid; f.surface_tension_ = tension; f.adherence_strength_ = adh; f.repulsion_strength_ = rep; f.bending_modulus_ = bend; return f; }
// a cell type with sane defaults; global_type_id: 0 epithelial 1 ecm 2 lumen 3 nucleus 4 static
inline cell_type_param_ptr make_cell_type(short gid, int n_face_types = 3) {
    auto t = std::make_shared<cell_type_parameters>();
    static const char* names[] = {"epithelial", "ecm", "lumen", "nucleus", "static"};
    t->name_ = names[gid]; t->global_type_id_ = gid; t->mass_density_ = 1.0; t->bulk_modulus_ = 1.0; t->max_pressure_ = std::numeric_limits<double>::infinity();
    t->initial_pressure_ = 0; t->area_elasticity_modulus_ = 0; t->avg_division_vol_ = std::numeric_limits<double>::infinity(); t->std_division_vol_ = 0;
    t->avg_growth_rate_ = 0; t->std_growth_rate_ = 0; t->min_vol_ = 0; t->angle_regularization_factor_ = 0; t->target_isoperimetric_ratio_ = 150; t->surface_coupling_max_curvature_ = 1e30;
    static const short face_gids[5][3] = {{0, 1, 2}, {3, 3, 3}, {4, 4, 4}, {5, 5, 5}, {6, 6, 6}};
    for (int i = 0; i < n_face_types; i++) t->add_face_type(make_face_type(std::string(names[gid]) + "_f" + std::to_string(i), face_gids[gid][i % 3]));
    return t; }
inline global_simulation_parameters make_sim_params(const std::string& out_dir, double l_min = 0.3) {
    global_simulation_parameters p; p.output_folder_path_ = out_dir; p.input_mesh_path_ = ""; p.perform_initial_triangulation_ = false; p.enable_edge_swap_operation_ = true;
    p.damping_coefficient_ = 1.0; p.simulation_duration_ = 1.0; p.sampling_period_ = 0.1; p.time_step_ = 1e-3; p.min_edge_len_ = l_min; p.contact_cutoff_adhesion_ = 0.1; p.contact_cutoff_repulsion_ = 0.1; return p; }

inline cell_ptr make_cell(const Mesh& m, unsigned id, cell_type_param_ptr type, bool init = true) {
    cell_ptr c; short g = type ? type->global_type_id_ : 0;
    switch (g) { case 1: c = std::make_shared<ecm_cell>(m.pos, m.tri, id, type); break; case 2: c = std::make_shared<lumen_cell>(m.pos, m.tri, id, type); break;
        case 3: c = std::make_shared<nucleus_cell>(m.pos, m.tri, id, type); break; case 4: c = std::make_shared<static_cell>(m.pos, m.tri, id, type); break;
        default: c = std::make_shared<epithelial_cell>(m.pos, m.tri, id, type); }
    c->set_local_id(id);
    if (init) c->initialize_cell_properties();
    return c; }
// cells own their faces which own a shared_ptr back to the cell: break the cycle so that a discarded cell is freed
inline void release(cell_ptr& c) { if (c) { c->clear_data(); c.reset(); } }

// ------------------------------------------------------------------------------------------------ independent mesh oracle
struct Tri { unsigned a, b, c; };
inline std::vector<Tri> live_triangles(const cell& c) { std::vector<Tri> t; for (const face& f : c.face_lst_) if (f.is_used_) t.push_back({f.n1_id_, f.n2_id_, f.n3_id_}); return t; }

struct OracleOpts { bool flat_is_error = true; bool check_bookkeeping = true; bool check_cached_geometry = true; bool check_volume = true; bool check_owner = true; bool check_genus = true; };

// Returns "" if everything holds, otherwise "<clause>: detail".  Uses only the list of live triangles and node slots for
// the topological part; then compares the cell's own bookkeeping with the recomputation.
inline std::string oracle_mesh(const cell& c, const OracleOpts& o = OracleOpts()) {
    std::ostringstream e;
    const size_t NS = c.node_lst_.size(), FS = c.face_lst_.size();
    std::vector<char> node_ref(NS, 0);
    std::map<std::pair<unsigned, unsigned>, int> dir;         // directed edge -> count
    std::map<std::pair<unsigned, unsigned>, std::vector<unsigned>> und;  // undirected edge -> faces
    size_t nlive_f = 0;
    for (unsigned fi = 0; fi < FS; fi++) { const face& f = c.face_lst_[fi]; if (!f.is_used_) continue; nlive_f++;
        unsigned v[3] = {f.n1_id_, f.n2_id_, f.n3_id_};
        for (int k = 0; k < 3; k++) { if (v[k] >= NS) { e << "live-triangle-refers-out-of-range-node: face " << fi << " node " << v[k]; return e.str(); }
            if (!c.node_lst_[v[k]].is_used_) { e << "live-triangle-refers-dead-node: face " << fi << " node " << v[k]; return e.str(); } node_ref[v[k]] = 1; }
        if (v[0] == v[1] || v[1] == v[2] || v[0] == v[2]) { e << "triangle-repeats-node: face " << fi << " (" << v[0] << "," << v[1] << "," << v[2] << ")"; return e.str(); }
        for (int k = 0; k < 3; k++) { unsigned a = v[k], b = v[(k + 1) % 3]; dir[{a, b}]++; und[std::minmax(a, b)].push_back(fi); } }
    if (nlive_f < 4) { e << "fewer-than-4-live-triangles: " << nlive_f; return e.str(); }
    for (auto& kv : und) if (kv.second.size() != 2) { e << "edge-not-shared-by-exactly-two-triangles: edge (" << kv.first.first << "," << kv.first.second << ") has " << kv.second.size(); return e.str(); }
    for (auto& kv : dir) { if (kv.second != 1) { e << "directed-edge-used-twice: (" << kv.first.first << "," << kv.first.second << ")"; return e.str(); }
        if (!dir.count({kv.first.second, kv.first.first})) { e << "edge-traversed-in-same-direction-by-both-triangles: (" << kv.first.first << "," << kv.first.second << ")"; return e.str(); } }
    size_t nlive_n = 0; for (unsigned i = 0; i < NS; i++) if (c.node_lst_[i].is_used_) { nlive_n++; if (!node_ref[i]) { e << "live-node-not-referenced-by-any-triangle: node " << i; return e.str(); } }
    long V = (long)nlive_n, E = (long)und.size(), F = (long)nlive_f;
    if (o.check_genus && V - E + F != 2) { e << "euler-characteristic: V-E+F=" << (V - E + F) << " (V=" << V << " E=" << E << " F=" << F << ")"; return e.str(); }
    { // connectivity over faces
        std::map<unsigned, std::vector<unsigned>> adj; for (auto& kv : und) { adj[kv.second[0]].push_back(kv.second[1]); adj[kv.second[1]].push_back(kv.second[0]); }
        std::set<unsigned> seen; std::vector<unsigned> st{adj.begin()->first}; seen.insert(st[0]);
        while (!st.empty()) { unsigned f = st.back(); st.pop_back(); for (unsigned g : adj[f]) if (seen.insert(g).second) st.push_back(g); }
        if (seen.size() != nlive_f) { e << "surface-not-connected: " << seen.size() << " of " << nlive_f << " triangles reachable"; return e.str(); } }
    // vertex links must be single cycles (no pinched vertex)
    { std::map<unsigned, int> deg; for (auto& kv : und) { deg[kv.first.first]++; deg[kv.first.second]++; }
      std::map<unsigned, int> fcount; for (unsigned fi = 0; fi < FS; fi++) { const face& f = c.face_lst_[fi]; if (!f.is_used_) continue; fcount[f.n1_id_]++; fcount[f.n2_id_]++; fcount[f.n3_id_]++; }
      for (auto& kv : deg) if (kv.second != fcount[kv.first]) { e << "pinched-vertex: node " << kv.first << " has " << kv.second << " edges and " << fcount[kv.first] << " triangles"; return e.str(); } }
    // orientation: signed volume about the mean of the live nodes must be positive
    if (o.check_volume) {
        long double cx = 0, cy = 0, cz = 0; for (unsigned i = 0; i < NS; i++) if (c.node_lst_[i].is_used_) { cx += c.node_lst_[i].pos_.dx(); cy += c.node_lst_[i].pos_.dy(); cz += c.node_lst_[i].pos_.dz(); }
        cx /= nlive_n; cy /= nlive_n; cz /= nlive_n; long double vol = 0, scale = 0;
        for (const face& f : c.face_lst_) { if (!f.is_used_) continue; const vec3 &A = c.node_lst_[f.n1_id_].pos_, &B = c.node_lst_[f.n2_id_].pos_, &C = c.node_lst_[f.n3_id_].pos_;
            long double ax = A.dx() - cx, ay = A.dy() - cy, az = A.dz() - cz, bx = B.dx() - cx, by = B.dy() - cy, bz = B.dz() - cz, gx = C.dx() - cx, gy = C.dy() - cy, gz = C.dz() - cz;
            long double d = ax * (by * gz - bz * gy) - ay * (bx * gz - bz * gx) + az * (bx * gy - by * gx); vol += d; scale += fabsl(d); }
        // A surface that has been flattened (all nodes coplanar to rounding: no enclosed volume at all) has no inside: its
        // orientation is undefined, which is a geometric degeneracy of the node positions, not an orientation error.  It is
        // reported separately ("degenerate-flat") so that callers can count it and stop expanding; everything else must be positive.
        long double ext = 0; for (unsigned i = 0; i < NS; i++) if (c.node_lst_[i].is_used_) { ext = std::max(ext, fabsl(c.node_lst_[i].pos_.dx() - cx)); ext = std::max(ext, fabsl(c.node_lst_[i].pos_.dy() - cy)); ext = std::max(ext, fabsl(c.node_lst_[i].pos_.dz() - cz)); }
        if (scale <= 1e-9L * ext * ext * ext) { if (o.flat_is_error) { e << "degenerate-flat: no enclosed volume (sum of |tetrahedra| " << (double)(scale / 6) << ", extent " << (double)ext << ")"; return e.str(); } }
        else if (!(vol > 1e-12L * scale) ) { e << "surface-not-oriented-outward: signed volume " << (double)(vol / 6) << " (scale " << (double)(scale / 6) << ")"; return e.str(); } }
    if (!o.check_bookkeeping) return "";
    // ---- bookkeeping versus recomputation
    if (c.get_nb_of_nodes() != nlive_n) { e << "node-count-bookkeeping: get_nb_of_nodes=" << c.get_nb_of_nodes() << " live=" << nlive_n; return e.str(); }
    if (c.get_nb_of_faces() != nlive_f) { e << "face-count-bookkeeping: get_nb_of_faces=" << c.get_nb_of_faces() << " live=" << nlive_f; return e.str(); }
    { std::set<unsigned> q(c.free_node_queue_.begin(), c.free_node_queue_.end()); if (q.size() != c.free_node_queue_.size()) { e << "free-node-queue-has-duplicates"; return e.str(); }
      for (unsigned i = 0; i < NS; i++) { bool dead = !c.node_lst_[i].is_used_; if (dead != (q.count(i) > 0)) { e << "free-node-queue-mismatch: slot " << i << (dead ? " dead but not queued" : " live but queued"); return e.str(); } }
      for (unsigned x : q) if (x >= NS) { e << "free-node-queue-out-of-range: " << x; return e.str(); } }
    { std::set<unsigned> q(c.free_face_queue_.begin(), c.free_face_queue_.end()); if (q.size() != c.free_face_queue_.size()) { e << "free-face-queue-has-duplicates"; return e.str(); }
      for (unsigned i = 0; i < FS; i++) { bool dead = !c.face_lst_[i].is_used_; if (dead != (q.count(i) > 0)) { e << "free-face-queue-mismatch: slot " << i << (dead ? " dead but not queued" : " live but queued"); return e.str(); } }
      for (unsigned x : q) if (x >= FS) { e << "free-face-queue-out-of-range: " << x; return e.str(); } }
    for (unsigned i = 0; i < NS; i++) if (c.node_lst_[i].is_used_ && c.node_lst_[i].node_id_ != i) { e << "node-id-differs-from-slot: slot " << i << " id " << c.node_lst_[i].node_id_; return e.str(); }
    for (unsigned i = 0; i < FS; i++) if (c.face_lst_[i].is_used_ && c.face_lst_[i].local_face_id_ != i) { e << "face-id-differs-from-slot: slot " << i << " id " << c.face_lst_[i].local_face_id_; return e.str(); }
    if (c.edge_set_.size() != und.size()) { e << "edge-set-size: edge_set has " << c.edge_set_.size() << " recomputed " << und.size(); return e.str(); }
    for (const edge& ed : c.edge_set_) { auto it = und.find({ed.n1_id_, ed.n2_id_}); if (it == und.end()) { e << "edge-set-has-unknown-edge: (" << ed.n1_id_ << "," << ed.n2_id_ << ")"; return e.str(); }
        if (!ed.f1_id_ || !ed.f2_id_) { e << "edge-set-edge-not-manifold: (" << ed.n1_id_ << "," << ed.n2_id_ << ")"; return e.str(); }
        unsigned f1 = *ed.f1_id_, f2 = *ed.f2_id_; auto& fs = it->second; if (!((f1 == fs[0] && f2 == fs[1]) || (f1 == fs[1] && f2 == fs[0]))) { e << "edge-set-adjacency-differs: edge (" << ed.n1_id_ << "," << ed.n2_id_ << ") stores faces (" << f1 << "," << f2 << ") recomputed (" << fs[0] << "," << fs[1] << ")"; return e.str(); } }
    if (o.check_owner) for (unsigned i = 0; i < FS; i++) if (c.face_lst_[i].is_used_ && c.face_lst_[i].owner_cell_.get() != &c) { e << "face-owner-is-not-its-cell: face " << i; return e.str(); }
    double mean_area = 0; if (o.check_cached_geometry) { for (const face& f : c.face_lst_) if (f.is_used_) { const vec3 &A = c.node_lst_[f.n1_id_].pos_, &B = c.node_lst_[f.n2_id_].pos_, &C = c.node_lst_[f.n3_id_].pos_; mean_area += 0.5 * (B - A).cross(C - A).norm(); } mean_area /= nlive_f; }
    if (o.check_cached_geometry) for (unsigned i = 0; i < FS; i++) { const face& f = c.face_lst_[i]; if (!f.is_used_) continue;
        const vec3 &A = c.node_lst_[f.n1_id_].pos_, &B = c.node_lst_[f.n2_id_].pos_, &C = c.node_lst_[f.n3_id_].pos_; vec3 n = (B - A).cross(C - A); double nn = n.norm(); double area = 0.5 * nn;
        double dotp = n.dot(f.normal_);
        if (area > 1e-9 * mean_area && !(dotp > 0)) { e << "cached-normal-opposes-winding: face " << i << " (" << f.n1_id_ << "," << f.n2_id_ << "," << f.n3_id_ << ") dot=" << dotp; return e.str(); }
        if (std::fabs(f.area_ - area) > 1e-9 * std::max(area, std::fabs(f.area_)) + 1e-12 * mean_area) { e << "cached-area-stale: face " << i << " cached " << f.area_ << " recomputed " << area; return e.str(); } }
    return "";
}
using vf::clause_of;

// ------------------------------------------------------------------------------------------------ canonical key of a cell
inline void put(std::string& s, const void* p, size_t n) { s.append((const char*)p, n); }
template <class T> inline void putv(std::string& s, T v) { put(s, &v, sizeof v); }
inline void put_vec3(std::string& s, const vec3& v) { putv(s, v.dx()); putv(s, v.dy()); putv(s, v.dz()); }
// exact serialisation of every field the remeshing code reads (DESIGN 2.4)
inline std::string canon_cell(const cell& c, bool with_centroid = true) {
    std::string s; s.reserve(64 * (c.node_lst_.size() + c.face_lst_.size()));
    putv<uint32_t>(s, c.node_lst_.size());
    for (const node& n : c.node_lst_) { putv<char>(s, n.is_used_); if (!n.is_used_) continue; putv<uint32_t>(s, n.node_id_); put_vec3(s, n.pos_);
#if DYNAMIC_MODEL_INDEX == 0
        put_vec3(s, n.momentum_);
#endif
    }
    putv<uint32_t>(s, c.face_lst_.size());
    for (const face& f : c.face_lst_) { putv<char>(s, f.is_used_); if (!f.is_used_) continue; putv<uint32_t>(s, f.local_face_id_); putv<uint32_t>(s, f.n1_id_); putv<uint32_t>(s, f.n2_id_); putv<uint32_t>(s, f.n3_id_); putv<uint16_t>(s, f.type_id_); put_vec3(s, f.normal_); putv(s, f.area_); }
    putv<uint32_t>(s, c.free_node_queue_.size()); for (unsigned x : c.free_node_queue_) putv<uint32_t>(s, x);
    putv<uint32_t>(s, c.free_face_queue_.size()); for (unsigned x : c.free_face_queue_) putv<uint32_t>(s, x);
    putv<uint32_t>(s, c.edge_set_.size());
    for (const edge& e : c.edge_set_) { putv<uint32_t>(s, e.n1_id_); putv<uint32_t>(s, e.n2_id_); putv<int64_t>(s, e.f1_id_ ? (int64_t)*e.f1_id_ : -1); putv<int64_t>(s, e.f2_id_ ? (int64_t)*e.f2_id_ : -1); }
    if (with_centroid) put_vec3(s, c.centroid_);
    return s;
}
inline uint64_t fnv(const std::string& s) { uint64_t h = 1469598103934665603ull; for (unsigned char ch : s) { h ^= ch; h *= 1099511628211ull; } return h; }

// geometry helpers (long double about the mean of the live nodes)
struct Geom { long double vol = 0, area = 0; long double cx = 0, cy = 0, cz = 0; double box[6]; };
inline Geom geom_of(const cell& c) { Geom g; size_t n = 0; long double mx = 0, my = 0, mz = 0;
    for (int k = 0; k < 3; k++) { g.box[k] = 1e300; g.box[3 + k] = -1e300; }
    for (const node& nd : c.node_lst_) if (nd.is_used_) { n++; mx += nd.pos_.dx(); my += nd.pos_.dy(); mz += nd.pos_.dz();
        double p[3] = {nd.pos_.dx(), nd.pos_.dy(), nd.pos_.dz()}; for (int k = 0; k < 3; k++) { g.box[k] = std::min(g.box[k], p[k]); g.box[3 + k] = std::max(g.box[3 + k], p[k]); } }
    mx /= n; my /= n; mz /= n; long double sx = 0, sy = 0, sz = 0;
    for (const face& f : c.face_lst_) { if (!f.is_used_) continue; const vec3 &A = c.node_lst_[f.n1_id_].pos_, &B = c.node_lst_[f.n2_id_].pos_, &C = c.node_lst_[f.n3_id_].pos_;
        long double ax = A.dx() - mx, ay = A.dy() - my, az = A.dz() - mz, bx = B.dx() - mx, by = B.dy() - my, bz = B.dz() - mz, qx = C.dx() - mx, qy = C.dy() - my, qz = C.dz() - mz;
        g.vol += (ax * (by * qz - bz * qy) - ay * (bx * qz - bz * qx) + az * (bx * qy - by * qx)) / 6;
        long double ux = bx - ax, uy = by - ay, uz = bz - az, vx = qx - ax, vy = qy - ay, vz = qz - az; long double nx = uy * vz - uz * vy, ny = uz * vx - ux * vz, nz = ux * vy - uy * vx;
        long double a = 0.5L * sqrtl(nx * nx + ny * ny + nz * nz); g.area += a; sx += a * (ax + bx + qx) / 3; sy += a * (ay + by + qy) / 3; sz += a * (az + bz + qz) / 3; }
    g.cx = mx + sx / g.area; g.cy = my + sy / g.area; g.cz = mz + sz / g.area; return g; }

// independent closest-point distance (long double, Ericson's regions re-derived with explicit clamping of barycentric coordinates)
inline long double dist2_point_triangle(const vec3& P, const vec3& A, const vec3& B, const vec3& C) {
    typedef long double L; L p[3] = {P.dx(), P.dy(), P.dz()}, a[3] = {A.dx(), A.dy(), A.dz()}, b[3] = {B.dx(), B.dy(), B.dz()}, c[3] = {C.dx(), C.dy(), C.dz()};
    auto seg = [&](const L* u, const L* v) { L uv[3], up[3]; L t = 0, l = 0; for (int k = 0; k < 3; k++) { uv[k] = v[k] - u[k]; up[k] = p[k] - u[k]; t += uv[k] * up[k]; l += uv[k] * uv[k]; } t = l > 0 ? std::max((L)0, std::min((L)1, t / l)) : 0; L d = 0; for (int k = 0; k < 3; k++) { L q = u[k] + t * uv[k] - p[k]; d += q * q; } return d; };
    L best = std::min(seg(a, b), std::min(seg(b, c), seg(c, a)));
    L ab[3], ac[3], ap[3], n[3]; for (int k = 0; k < 3; k++) { ab[k] = b[k] - a[k]; ac[k] = c[k] - a[k]; ap[k] = p[k] - a[k]; }
    n[0] = ab[1] * ac[2] - ab[2] * ac[1]; n[1] = ab[2] * ac[0] - ab[0] * ac[2]; n[2] = ab[0] * ac[1] - ab[1] * ac[0]; L nn = n[0] * n[0] + n[1] * n[1] + n[2] * n[2];
    if (nn > 0) { L d00 = 0, d01 = 0, d11 = 0, d20 = 0, d21 = 0; for (int k = 0; k < 3; k++) { d00 += ab[k] * ab[k]; d01 += ab[k] * ac[k]; d11 += ac[k] * ac[k]; d20 += ap[k] * ab[k]; d21 += ap[k] * ac[k]; } L den = d00 * d11 - d01 * d01; L v = (d11 * d20 - d01 * d21) / den, w = (d00 * d21 - d01 * d20) / den;
        if (v >= 0 && w >= 0 && v + w <= 1) { L h = ap[0] * n[0] + ap[1] * n[1] + ap[2] * n[2]; best = std::min(best, h * h / nn); } }
    return best;
}


inline std::string mesh_to_text(const Mesh& m) { std::ostringstream o; o << m.nv() << " " << m.nf(); for (double d : m.pos) o << " " << vf::dhex(d); for (unsigned t : m.tri) o << " " << t; return o.str(); }
inline Mesh mesh_from_text(const std::string& s) { std::istringstream i(s); size_t nv, nf; i >> nv >> nf; Mesh m; m.pos.resize(3 * nv); m.tri.resize(3 * nf); for (auto& d : m.pos) { std::string t; i >> t; d = strtod(t.c_str(), nullptr); } for (auto& t : m.tri) i >> t; m.name = "replayed"; return m; }

} // namespace sc
