"""Content-hashed build of repository objects and harnesses (DESIGN.md 2.2).

Nothing from <repo>/_build is used.  Every object file is keyed by sha256(flags + text of the source file +
text of every header of the repository (+ engine headers for harnesses)), so an edit anywhere under the
working tree forces recompilation of whatever can see it, and nothing stale can be linked.
"""
import json
import os, sys, hashlib, subprocess, glob, json
from concurrent.futures import ThreadPoolExecutor

VERIF = os.path.dirname(os.path.dirname(os.path.abspath(__file__)))
BUILD = os.path.join(VERIF, 'build')
CXX = os.environ.get('VERIF_CXX', 'g++')


class BuildError(Exception):
    pass


def sha(*parts):
    h = hashlib.sha256()
    for p in parts:
        if isinstance(p, str):
            p = p.encode()
        h.update(p)
        h.update(b'\0')
    return h.hexdigest()[:24]


def read(p):
    with open(p, 'rb') as f:
        return f.read()


_hdr_cache = {}


def header_hash(repo):
    if repo in _hdr_cache:
        return _hdr_cache[repo]
    files = []
    for root in ('include', 'lib/tinyxml2', 'lib/delaunator/include'):
        for d, _, fs in os.walk(os.path.join(repo, root)):
            for f in fs:
                if f.endswith(('.h', '.hpp')):
                    files.append(os.path.join(d, f))
    files.sort()
    h = hashlib.sha256()
    for f in files:
        h.update(os.path.relpath(f, repo).encode())
        h.update(read(f))
    _hdr_cache[repo] = h.hexdigest()
    return _hdr_cache[repo]


def engine_hash():
    files = []
    for top in ('engine', 'harness'):
        for d, _, fs in os.walk(os.path.join(VERIF, top)):
            for f in fs:
                if f.endswith(('.hpp', '.h')):
                    files.append(os.path.join(d, f))
    files.sort()
    h = hashlib.sha256()
    for f in files:
        h.update(os.path.relpath(f, VERIF).encode())
        h.update(read(f))
    return h.hexdigest()


def include_flags(repo):
    dirs = []
    for d, _, _ in os.walk(os.path.join(repo, 'include')):
        dirs.append(d)
    dirs.sort()
    dirs += [os.path.join(repo, 'lib/tinyxml2'), os.path.join(repo, 'lib/delaunator/include')]
    return ['-I' + d for d in dirs]


def repo_sources(repo, with_main=False):
    srcs = []
    for d, _, fs in os.walk(os.path.join(repo, 'src')):
        if 'python_bindings' in d:
            continue
        for f in fs:
            if f.endswith('.cpp'):
                srcs.append(os.path.join(d, f))
    srcs.sort()
    srcs.append(os.path.join(repo, 'lib/tinyxml2/tinyxml2.cpp'))
    if with_main:
        srcs.append(os.path.join(repo, 'main.cpp'))
    return srcs


# variant name: <kind>-c<X>d<Y>
KIND_FLAGS = {
    'plain': ['-O1', '-g'],
    'asan': ['-O1', '-g', '-fsanitize=address,undefined', '-fno-omit-frame-pointer', '-fno-sanitize-recover=undefined', '-D_GLIBCXX_ASSERTIONS', '-D_GLIBCXX_SANITIZE_VECTOR'],
    'tsan': ['-O1', '-g', '-fsanitize=thread'],
    'lset': ['-O1', '-g', '-fsanitize=thread'],      # ThreadSanitizer instrumentation, but linked against engine/vomp/lset.cpp instead of libtsan
    'init0': ['-O1', '-g', '-ftrivial-auto-var-init=zero'],
    'initP': ['-O1', '-g', '-ftrivial-auto-var-init=pattern'],
}
KIND_LINK = {
    'plain': [],
    'asan': ['-fsanitize=address,undefined'],
    'tsan': ['-fsanitize=thread'],
    'lset': ['-ldl'],
    'init0': [],
    'initP': [],
}


def variant_flags(repo, variant):
    # <kind>-c<X>d<Y>[e<0|1>][n<0|1>][p<0|1|2>] : contact model, dynamic model, faces store contact energies, normals written to the mesh files, polarization mode
    import re
    kind, cd = variant.split('-')
    m = re.fullmatch(r'c(\d)d(\d)(?:e(\d))?(?:n(\d))?(?:p(\d))?', cd)
    if not m:
        raise BuildError('bad variant name: ' + variant)
    c, d = int(m.group(1)), int(m.group(2))
    fl = ['-std=c++17', '-DNDEBUG', '-fopenmp', '-w', '-DSIMUCELL3D_VERIF',
          '-DVERIF_CONTACT_MODEL_INDEX=%d' % c, '-DVERIF_DYNAMIC_MODEL_INDEX=%d' % d,
          '-DPROJECT_SOURCE_DIR="%s"' % repo]
    if m.group(3) is not None:
        fl.append('-DVERIF_FACE_STORE_CONTACT_ENERGY=%s' % ('true' if m.group(3) == '1' else 'false'))
    if m.group(4) is not None:
        fl.append('-DVERIF_WRITE_NORMALS_IN_OUTPUT_MESH_FILE=%s' % ('true' if m.group(4) == '1' else 'false'))
    if m.group(5) is not None:
        fl.append('-DVERIF_POLARIZATION_MODE_INDEX=%d' % int(m.group(5)))
    return fl + KIND_FLAGS[kind], kind



_OMP_CACHE = {}


def openmp_sources(repo):
    """Which repository sources does the repository's OWN build compile with OpenMP enabled?  Asked of CMake itself (configure only, ~1 s,
    cached by the text of every CMakeLists.txt): a `#pragma omp ...` in a file that the project builds without -fopenmp is ignored by the
    compiler there, and must be ignored in the verification build too, or the checks decide the property for a program nobody runs."""
    if repo in _OMP_CACHE:
        return _OMP_CACHE[repo]
    texts = []
    for d, dn, fs in os.walk(repo):
        dn[:] = [x for x in dn if not x.startswith('.') and not x.startswith('_build') and x not in ('build', 'scratch')]
        for f in fs:
            if f == 'CMakeLists.txt' or f.endswith('.cmake'):
                texts.append(os.path.relpath(os.path.join(d, f), repo).encode() + b'\0' + read(os.path.join(d, f)))
    key = sha(*sorted(texts), repo)
    cache = os.path.join(BUILD, 'cmake-probe', key + '.json')
    if os.path.exists(cache):
        res = set(json.load(open(cache)))
    else:
        import tempfile, shutil
        os.makedirs(os.path.dirname(cache), exist_ok=True)
        tmp = tempfile.mkdtemp(prefix='probe-', dir=os.path.dirname(cache))
        try:
            r = subprocess.run(['cmake', '-S', repo, '-B', tmp, '-G', 'Ninja', '-DCMAKE_EXPORT_COMPILE_COMMANDS=ON', '-DCMAKE_BUILD_TYPE=RelWithDebInfo'],
                               stdout=subprocess.PIPE, stderr=subprocess.STDOUT, text=True, errors='replace')
            cc = os.path.join(tmp, 'compile_commands.json')
            if r.returncode != 0 or not os.path.exists(cc):
                raise BuildError('cmake configure of the repository failed (needed to learn the per-file OpenMP setting): %s' % r.stdout[-2000:])
            res = set()
            for e in json.load(open(cc)):
                f = os.path.realpath(e['file'])
                if f.startswith(os.path.realpath(repo) + os.sep) and '-fopenmp' in e.get('command', ' '.join(e.get('arguments', []))):
                    res.add(os.path.relpath(f, os.path.realpath(repo)))
            t2 = cache + '.tmp%d' % os.getpid()
            json.dump(sorted(res), open(t2, 'w'))
            os.replace(t2, cache)
        finally:
            shutil.rmtree(tmp, ignore_errors=True)
    _OMP_CACHE[repo] = res
    return res


def compile_one(job):
    src, obj, flags, cwd = job
    if os.path.exists(obj):
        return None
    tmp = obj + '.tmp%d' % os.getpid()
    cmd = [CXX] + flags + ['-c', src, '-o', tmp]
    r = subprocess.run(cmd, stdout=subprocess.PIPE, stderr=subprocess.STDOUT, text=True, errors='replace', cwd=cwd)
    if r.returncode != 0:
        try:
            os.remove(tmp)
        except OSError:
            pass
        return 'compile failed: %s\n%s' % (' '.join(cmd), r.stdout[-4000:])
    os.replace(tmp, obj)
    return None


def run_jobs(jobs):
    if not jobs:
        return
    with ThreadPoolExecutor(max_workers=int(os.environ.get('VERIF_JOBS', '16'))) as ex:
        for err in ex.map(compile_one, jobs):
            if err:
                raise BuildError(err)


def repo_objects(repo, variant, with_main=False):
    flags, kind = variant_flags(repo, variant)
    flags = flags + include_flags(repo)
    hh = header_hash(repo)
    objdir = os.path.join(BUILD, 'obj')
    os.makedirs(objdir, exist_ok=True)
    jobs, objs = [], []
    omp = openmp_sources(repo)
    for s in repo_sources(repo, with_main):
        rel = os.path.relpath(os.path.realpath(s), os.path.realpath(repo))
        # OpenMP only where the repository's own build enables it (third-party tinyxml2 has no pragmas: irrelevant there)
        fl = flags if (rel in omp or rel.startswith('lib' + os.sep)) else [f for f in flags if f != '-fopenmp']
        fkey = sha(' '.join(f for f in fl if not f.startswith('-I')), CXX)
        key = sha(fkey, hh, os.path.relpath(s, repo), read(s))
        obj = os.path.join(objdir, '%s-%s.o' % (os.path.basename(s)[:-4], key))
        objs.append(obj)
        jobs.append((s, obj, fl, repo))
    run_jobs(jobs)
    return objs


def engine_objects(variant):
    """vomp (the OpenMP runtime) and the weak default hooks; independent of the repository."""
    _, kind = variant_flags('/x', variant)
    objdir = os.path.join(BUILD, 'obj')
    os.makedirs(objdir, exist_ok=True)
    eh = engine_hash()
    objs, jobs = [], []
    # the scheduler TU is never instrumented by TSan (DESIGN 2.6); ASan instrumentation is harmless
    base = ['-std=c++17', '-O1', '-g', '-w', '-I' + os.path.join(VERIF, 'engine')]
    if kind == 'asan':
        base += ['-fsanitize=address', '-fno-omit-frame-pointer']
    if kind == 'tsan':
        base += ['-DVOMP_TSAN']
    for s in ('vomp/vomp.cpp', 'hooks_default.cpp') + (('vomp/lset.cpp',) if kind == 'lset' else ()):
        p = os.path.join(VERIF, 'engine', s)
        key = sha(' '.join(base), eh, s, read(p), CXX)
        obj = os.path.join(objdir, '%s-%s.o' % (os.path.basename(s)[:-4], key))
        objs.append(obj)
        jobs.append((p, obj, base, VERIF))
    run_jobs(jobs)
    return objs


def build_harness(repo, cfg, variant):
    flags, kind = variant_flags(repo, variant)
    with_main = bool(cfg.get('with_main'))
    robjs = repo_objects(repo, variant, with_main=False)
    eobjs = engine_objects(variant)
    hsrc = os.path.join(VERIF, 'harness', cfg['harness'])
    hflags = flags + include_flags(repo) + ['-I' + os.path.join(VERIF, 'engine'), '-fno-access-control'] + cfg.get('cxxflags', [])
    hkey = sha(' '.join(f for f in hflags if not f.startswith('-I')), header_hash(repo), engine_hash(), read(hsrc), CXX, repo)
    objdir = os.path.join(BUILD, 'obj')
    hobj = os.path.join(objdir, '%s-%s.o' % (cfg['harness'][:-4], hkey))
    jobs = [(hsrc, hobj, hflags, VERIF)]
    extra_objs = []
    if with_main:
        # the real main.cpp, compiled with its `main` renamed so that the harness can drive it in-process if it wants;
        # the stand-alone real binary is built separately by build_main()
        pass
    run_jobs(jobs)
    bindir = os.path.join(BUILD, 'bin')
    os.makedirs(bindir, exist_ok=True)
    lkey = sha(*(sorted(robjs) + sorted(eobjs) + [hobj]), ' '.join(KIND_LINK[kind]))
    exe = os.path.join(bindir, '%s-%s-%s' % (cfg['harness'][:-4], variant, lkey))
    if not os.path.exists(exe):
        tmp = exe + '.tmp%d' % os.getpid()
        cmd = [CXX, '-o', tmp, hobj] + robjs + eobjs + KIND_LINK[kind] + ['-lpthread', '-lstdc++fs']
        r = subprocess.run(cmd, stdout=subprocess.PIPE, stderr=subprocess.STDOUT, text=True, errors='replace')
        if r.returncode != 0:
            raise BuildError('link failed: %s' % r.stdout[-4000:])
        os.replace(tmp, exe)
    else:
        try:
            os.utime(exe, None)   # least-recently-used order for gc()
        except OSError:
            pass
    return exe


def build_main(repo, variant):
    """The real executable: main.cpp + library objects + vomp (serial) -> build/bin/simucell3d-<variant>-<key>."""
    flags, kind = variant_flags(repo, variant)
    objs = repo_objects(repo, variant, with_main=True)
    eobjs = engine_objects(variant)
    bindir = os.path.join(BUILD, 'bin')
    os.makedirs(bindir, exist_ok=True)
    lkey = sha(*(sorted(objs) + sorted(eobjs)), ' '.join(KIND_LINK[kind]))
    exe = os.path.join(bindir, 'simucell3d-%s-%s' % (variant, lkey))
    if not os.path.exists(exe):
        tmp = exe + '.tmp%d' % os.getpid()
        cmd = [CXX, '-o', tmp] + objs + eobjs + KIND_LINK[kind] + ['-lpthread', '-lstdc++fs']
        r = subprocess.run(cmd, stdout=subprocess.PIPE, stderr=subprocess.STDOUT, text=True, errors='replace')
        if r.returncode != 0:
            raise BuildError('link failed: %s' % r.stdout[-4000:])
        os.replace(tmp, exe)
    else:
        try:
            os.utime(exe, None)   # least-recently-used order for gc()
        except OSError:
            pass
    return exe


def gc(max_files=4000, max_bins=300):
    """Drop the least recently used cached objects/binaries when the cache grows (disk is limited; a sanitizer binary is 20-40 MB)."""
    for sub in ('obj', 'bin'):
        max_files = max_bins if sub == 'bin' else max_files
        d = os.path.join(BUILD, sub)
        if not os.path.isdir(d):
            continue
        fs = [os.path.join(d, f) for f in os.listdir(d)]
        if len(fs) <= max_files:
            continue
        fs.sort(key=lambda p: os.path.getmtime(p))
        for p in fs[:len(fs) - max_files]:
            try:
                os.remove(p)
            except OSError:
                pass


if __name__ == '__main__':
    # python3 engine/vbuild.py <variant>... : pre-build repo objects for the given variants (used by bin/setup)
    repo = os.environ.get('VERIF_REPO', '/repo')
    for v in sys.argv[1:]:
        repo_objects(repo, v, with_main=True)
        engine_objects(v)
        print('built', v)
